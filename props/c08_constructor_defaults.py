"""C08 -- models are built by their own constructor; omitted fields get the true default.

Generated: instrumented models (dataclass incl. kw_only, attrs incl. Factory / takes_self / kw_only / private names,
plain classes whose __init__ mixes positional-only / positional-or-keyword / keyword-only parameters, NamedTuple,
pydantic v2) whose constructor logs (args, kwargs); defaults drawn from a look-alike pool (0 1 True False None 0.0 -0.0
1.0 nan Decimal Fraction complex IntEnum/IntFlag members valued 0/1, '' b'' () frozenset(), range, slice, Ellipsis,
NotImplemented, builtin types and functions, objects imitating True, containers of these) and factories (list, dict,
set, lambdas returning fresh containers, counters, attrs takes_self).  Input = required fields + a generated subset of
the optional ones; dict and list layouts.

Every field has a *loader kind*: ``Any`` (value passed as is), a recording user loader bound to the field
(``loader(P[M].f, fn)``) or to its marker type, or a builtin scalar loader (int / str / Optional[int] / list, under both
strict_coercion modes; reference = the standalone loader of that type).  A present key holds a unique object or a value
a careless presence test confuses with absence: None, Ellipsis, NotImplemented, falsy scalars, the declared default
itself, an equal copy of it, an object equal to everything.  A bounded table enumerates (position of the optional field
x sentinel-looking default x sentinel-looking present value x loader kind x debug_trail x strict_coercion) completely.
A second family ("tree") generates recursive / mutually recursive TypedDict (NotRequired), attrs (takes_self
factories) and dataclass models with data 0..4 levels deep, every node with its own subset of optional keys, optionally
re-entering the retort for the same model from inside a field loader; oracle = constructor-call log per object.

Oracle: exactly one constructor call per load; the call binds to the signature; every *present* field's value is bound
(by identity) to its own parameter; a parameter of an *absent* field is either not passed or passed the true default
(same type, equal); the result is attribute-wise equal with exact types to the object the harness builds directly
from the present fields; factory results are fresh per load; post-init hooks ran.
"""
from __future__ import annotations

import dataclasses
import collections
import enum
import inspect
import itertools
import math
import sys
import types
import typing
from decimal import Decimal
from fractions import Fraction

from vkit import env, runner
from vkit.errors import describe, exc_site

env.import_adaptix()

from hypothesis import strategies as st  # noqa: E402

from adaptix import DebugTrail, P, ProviderNotFoundError, Retort, name_mapping  # noqa: E402
from adaptix import loader as adaptix_loader  # noqa: E402
from adaptix.load_error import LoadError  # noqa: E402
from vkit import tspec  # noqa: E402

PROP = "C08"
DEBUG = [DebugTrail.DISABLE, DebugTrail.FIRST, DebugTrail.ALL]


class IE(enum.IntEnum):
    ZERO = 0
    ONE = 1


class IF(enum.IntFlag):
    NONE = 0
    A = 1


class SE(str, enum.Enum):
    EMPTY = ""
    T = "True"


class Point(typing.NamedTuple):
    x: int
    y: int


class Version(typing.NamedTuple):
    major: int
    minor: int
    tag: typing.Optional[str]


class TupleSub(tuple):
    pass


class StrSub(str):
    pass


class IntSub(int):
    pass


class TrueLike:
    def __eq__(self, other):
        return other is True or isinstance(other, TrueLike)

    def __hash__(self):
        return hash(True)

    def __repr__(self):
        return "TrueLike()"


DEFAULTS = {
    "0": lambda: 0, "1": lambda: 1, "True": lambda: True, "False": lambda: False, "None": lambda: None,
    "0.0": lambda: 0.0, "-0.0": lambda: -0.0, "1.0": lambda: 1.0, "nan": lambda: float("nan"), "inf": lambda: float("inf"),
    "Decimal0": lambda: Decimal("0"), "Decimal1": lambda: Decimal("1"), "Decimal1.0": lambda: Decimal("1.0"),
    "Fraction1": lambda: Fraction(1), "Fraction0": lambda: Fraction(0), "complex1": lambda: complex(1), "complex0": lambda: 0j,
    "IE.ZERO": lambda: IE.ZERO, "IE.ONE": lambda: IE.ONE, "IF.NONE": lambda: IF.NONE, "IF.A": lambda: IF.A,
    "SE.EMPTY": lambda: SE.EMPTY, "SE.T": lambda: SE.T,
    "''": lambda: "", "b''": lambda: b"", "()": lambda: (), "frozenset()": lambda: frozenset(),
    "range": lambda: range(1, 10, 2), "range0": lambda: range(0), "slice": lambda: slice(1, 7, 3), "Ellipsis": lambda: ...,
    "NotImplemented": lambda: NotImplemented, "int": lambda: int, "len": lambda: len, "print": lambda: print,
    "TrueLike": TrueLike, "(Decimal1,)": lambda: (Decimal("1"),), "(True,1,1.0)": lambda: (True, 1, 1.0),
    "frozenset({IE.ONE})": lambda: frozenset({IE.ONE}), "bytearray-like": lambda: b"\x00",
    "'x'": lambda: "x", "-1": lambda: -1, "2**70": lambda: 2 ** 70, "(nan,)": lambda: (float("nan"),),
    # ints above the int-to-str digit limit have no decimal text: they cannot be rendered as literals
    "10**5000": lambda: 10 ** 5000, "(1,10**5000)": lambda: (1, -10 ** 5000),
    # dict defaults whose keys have no literal form
    "{IE.ONE:1}": lambda: {IE.ONE: 1}, "{(1,Decimal1):2}": lambda: {(1, Decimal("1")): (True, 1)},
    "'quote\"\\'\\n'": lambda: "quote\"'\n{}",
    # plain literal containers (rendered inline by the code generator) and their look-alikes
    "(1,)": lambda: (1,), "((1,2),)": lambda: ((1, 2),), "(1,0)": lambda: (1, 0), "(True,False)": lambda: (True, False),
    "(1.0,0.0)": lambda: (1.0, 0.0), "(0,)": lambda: (0,), "(False,)": lambda: (False,), "(0.0,10)": lambda: (0.0, 10),
    "(-0.0,10)": lambda: (-0.0, 10), "(None,)": lambda: (None,), "((),)": lambda: ((),), "('a',)": lambda: ("a",),
    "frozenset({1})": lambda: frozenset({1}), "frozenset({True})": lambda: frozenset({True}), "(1,(2,(3,)))": lambda: (1, (2, (3,))),
    "Point(0,0)": lambda: Point(0, 0), "Version(1,0,None)": lambda: Version(1, 0, None), "TupleSub((1,2))": lambda: TupleSub((1, 2)),
    "StrSub('')": lambda: StrSub(""), "IntSub(0)": lambda: IntSub(0), "(IE.ONE,IE.ZERO)": lambda: (IE.ONE, IE.ZERO),
    "(Decimal1,Decimal0)": lambda: (Decimal("1"), Decimal("0")), "(Fraction1,Fraction0)": lambda: (Fraction(1), Fraction(0)),
    "slice(None)": lambda: slice(None), "range(3)": lambda: range(3), "bytes_a": lambda: b"a",
}
_counter_seq = itertools.count(1000)
FACTORIES = {
    "list": list, "dict": dict, "set": set, "lambda_list": lambda: [1, 2], "lambda_dict": lambda: {"k": []},
    "counter": lambda: next(_counter_seq), "tuple": tuple, "str": str, "bytearray": bytearray,
}
KINDS = ["dataclass", "attrs", "plain", "namedtuple", "pydantic"]
NAMES = ["a", "b", "c", "d", "e", "f_", "_g", "data", "value", "self_"]
# defaults that look like "nothing here" -- the values a hand-rolled presence test is tempted to use instead of a private sentinel
SENTINEL_LIKE = ["None", "None", "None", "Ellipsis", "NotImplemented", "0", "False", "''", "()"]
# what a present key may hold (see ``present_value``)
PVALS = ["u", "u", "u", "u", "None", "None", "0", "False", "empty_str", "empty_tuple", "Ellipsis", "NotImplemented",
         "default", "default", "default_eq", "eq_all"]
# loader kinds of a field: ``Any`` (no loader at all), recording user loader bound to the field / to the field's marker type,
# builtin loaders whose verdict on None / falsy values differs from "pass through"
LOADER_KINDS = ["asis", "asis", "asis", "asis", "user", "user", "utype", "int", "str", "optint", "list"]
TYPED = {"int": "int", "str": "str", "optint": "typing.Optional[int]", "list": "list"}


class EqAll:
    """Equal to everything (and falsy): what ``value == sentinel`` / ``not value`` presence tests stumble over."""
    def __eq__(self, other):
        return True

    def __ne__(self, other):
        return False

    def __hash__(self):
        return 0

    def __bool__(self):
        return False

    def __repr__(self):
        return "EqAll()"


# ------------------------------------------------------------------------------------ strategies
@st.composite
def st_flat(draw):
    kind = draw(st.sampled_from(KINDS))
    n = draw(st.integers(1, 6))
    names = draw(st.lists(st.sampled_from(NAMES), min_size=n, max_size=n, unique=True))
    if kind in ("namedtuple", "pydantic"):
        names = [x for x in names if not x.startswith("_")] or ["a"]
    fields = []
    for nm in names:
        f = {"n": nm, "pk": "pos_or_kw", "d": None}
        r = draw(st.integers(0, 9))
        ld = draw(st.sampled_from(LOADER_KINDS))
        if kind == "pydantic" and ld not in ("asis", "user"):
            ld = "user"   # pydantic validates what it is given against the annotation a second time: keep ``Any``
        f["ld"] = ld
        if r < 4:
            f["d"] = ["v", draw(st.sampled_from(SENTINEL_LIKE if draw(st.integers(0, 3)) == 0 else sorted(DEFAULTS)))]
            if kind == "pydantic" and f["d"][1] == "Ellipsis":
                f["d"] = ["v", "NotImplemented"]  # pydantic reads ``= ...`` as "required"
        elif r < 6 and kind in ("dataclass", "attrs", "pydantic"):
            f["d"] = ["f", draw(st.sampled_from(sorted(FACTORIES)))]
        elif r == 6 and kind == "attrs":
            f["d"] = ["fs"]
        if kind in ("plain", "dataclass", "attrs") and draw(st.integers(0, 3)) == 0:
            f["pk"] = "kw_only"
        elif kind == "plain" and draw(st.integers(0, 4)) == 0:
            f["pk"] = "pos_only"
        fields.append(f)
    # python ordering rules: pos_only < pos_or_kw < kw_only; within the positional part required before optional
    order = {"pos_only": 0, "pos_or_kw": 1, "kw_only": 2}
    pos = sorted([f for f in fields if f["pk"] != "kw_only"], key=lambda f: (f["d"] is not None, ))
    seen_default = False
    for f in pos:
        seen_default = seen_default or f["d"] is not None
    npos_only = sum(1 for f in pos if f["pk"] == "pos_only")
    for i, f in enumerate(pos):
        f["pk"] = "pos_only" if i < npos_only else "pos_or_kw"
    if kind in ("dataclass", "attrs"):
        # a keyword-only field may be declared anywhere: the order of *fields* then differs from the order of the
        # constructor's *parameters* (keyword-only parameters come last in the signature)
        it = iter(pos)
        fields = [f if f["pk"] == "kw_only" else next(it) for f in fields]
    else:
        fields = pos + [f for f in fields if f["pk"] == "kw_only"]
    del order
    present = [draw(st.booleans()) for _ in fields]
    layout = draw(st.sampled_from(["dict", "dict", "dict", "list"]))
    # what a present field holds: a unique object, or one of the falsy singletons a careless "is it there?" test confuses
    # with absence
    pvals = [draw(st.sampled_from(PVALS)) for _ in fields]
    # the mapping the fields arrive in: for some, ``data[key]`` of an ABSENT key answers (``__missing__``) or the mapping is not a
    # dict at all -- "absent" is what ``key in data`` says
    mapping = draw(st.sampled_from(["dict", "dict", "dict", "dict", "defaultdict", "counter", "missing_dict", "mappingproxy",
                                    "chainmap"]))
    return {"kind": kind, "fields": fields, "present": present, "layout": layout, "debug": draw(st.integers(0, 2)),
            "hooks": draw(st.booleans()), "pvals": pvals, "mapping": mapping, "sc": draw(st.booleans())}


class MissingDict(dict):
    def __missing__(self, key):
        return 0


def wrap_mapping(datum: dict, how: str):
    if how == "defaultdict":
        return collections.defaultdict(lambda: ("made-by-missing",), datum)
    if how == "counter":
        return collections.Counter(datum)
    if how == "missing_dict":
        return MissingDict(datum)
    if how == "mappingproxy":
        return types.MappingProxyType(datum)
    if how == "chainmap":
        return collections.ChainMap({}, datum)
    return datum


# ------------------------------------------------------------------------------------ model construction
_uid = itertools.count()


def build_model(case, log):  # noqa: C901, PLR0912, PLR0915
    kind = case["kind"]
    cname = f"C08M{next(_uid)}"
    ns: dict = {"dataclasses": dataclasses, "typing": typing, "Any": typing.Any, "LOG": log}
    defaults = {}
    lines = []
    ann = []    # annotation of every field: decides which loader adaptix uses for it
    for i, f in enumerate(case["fields"]):
        ld = f.get("ld", "asis")
        if ld == "utype":
            ns[f"_M{i}"] = type(f"Marker{i}", (), {})
            ann.append(f"_M{i}")
        else:
            ann.append(TYPED.get(ld, "Any"))
        d = f["d"]
        if d is not None and d[0] == "v":
            defaults[f["n"]] = ns[f"_D{i}"] = DEFAULTS[d[1]]()
        elif d is not None and d[0] == "f":
            ns[f"_F{i}"] = FACTORIES[d[1]]
    hooks = case.get("hooks")
    if kind == "dataclass":
        lines += ["@dataclasses.dataclass", f"class {cname}:"]
        for i, f in enumerate(case["fields"]):
            opts = []
            d = f["d"]
            if d is not None and d[0] == "v":
                opts.append(f"default=_D{i}")
            elif d is not None:
                opts.append(f"default_factory=_F{i}")
            if f["pk"] == "kw_only":
                opts.append("kw_only=True")
            lines.append(f"    {f['n']}: {ann[i]} = dataclasses.field({', '.join(opts)})" if opts else f"    {f['n']}: {ann[i]}")
        if hooks:
            lines += ["    def __post_init__(self):", "        LOG.append(('post_init',))"]
    elif kind == "attrs":
        import attrs  # noqa: PLC0415
        ns["attrs"] = attrs
        lines += ["@attrs.define", f"class {cname}:"]
        for i, f in enumerate(case["fields"]):
            opts = []
            d = f["d"]
            if d is not None and d[0] == "v":
                opts.append(f"default=_D{i}")
            elif d is not None and d[0] == "f":
                opts.append(f"factory=_F{i}")
            elif d is not None:
                opts.append("default=attrs.Factory(lambda self: ('from_self', id(self) != 0), takes_self=True)")
            if f["pk"] == "kw_only":
                opts.append("kw_only=True")
            lines.append(f"    {f['n']}: {ann[i]} = attrs.field({', '.join(opts)})")
        if hooks:
            lines += ["    def __attrs_post_init__(self):", "        LOG.append(('post_init',))"]
    elif kind == "namedtuple":
        lines += [f"class {cname}(typing.NamedTuple):"]
        for i, f in enumerate(case["fields"]):
            lines.append(f"    {f['n']}: {ann[i]}" + (f" = _D{i}" if f["d"] else ""))
    elif kind == "pydantic":
        import pydantic  # noqa: PLC0415
        ns["pydantic"] = pydantic
        lines += [f"class {cname}(pydantic.BaseModel):", "    model_config = pydantic.ConfigDict(arbitrary_types_allowed=True)"]
        for i, f in enumerate(case["fields"]):
            d = f["d"]
            if d is None:
                lines.append(f"    {f['n']}: {ann[i]}")
            elif d[0] == "v":
                lines.append(f"    {f['n']}: {ann[i]} = _D{i}")
            else:
                lines.append(f"    {f['n']}: {ann[i]} = pydantic.Field(default_factory=_F{i})")
        if hooks:
            lines += ["    @pydantic.model_validator(mode='after')", "    def _after(self):", "        LOG.append(('post_init',))",
                      "        return self"]
    else:  # plain class
        params = []
        emitted_slash = emitted_star = False
        fields = case["fields"]
        for i, f in enumerate(fields):
            if f["pk"] == "kw_only" and not emitted_star:
                if any(x["pk"] == "pos_only" for x in fields) and not emitted_slash:
                    params.append("/")
                    emitted_slash = True
                params.append("*")
                emitted_star = True
            if f["pk"] == "pos_or_kw" and not emitted_slash and any(x["pk"] == "pos_only" for x in fields):
                params.append("/")
                emitted_slash = True
            params.append(f"{f['n']}: {ann[i]}" + (f" = _D{i}" if f["d"] else ""))
        if any(x["pk"] == "pos_only" for x in fields) and not emitted_slash:
            params.append("/")
        lines += [f"class {cname}:", f"    def __init__(self, {', '.join(params)}):"]
        for f in fields:
            lines.append(f"        self.{f['n']} = {f['n']}")
        if hooks:
            lines.append("        LOG.append(('post_init',))")
    src = "\n".join(lines) + "\n"
    exec(compile(src, f"<c08 {cname}>", "exec", dont_inherit=True), ns)  # noqa: S102
    cls = ns[cname]
    # wrap the constructor with a logging wrapper that keeps the signature
    if kind == "namedtuple":
        orig_new = cls.__new__

        def logging_new(klass, *a, **kw):
            log.append(("call", a, kw))
            return orig_new(klass, *a, **kw)
        logging_new.__signature__ = inspect.signature(orig_new)  # type: ignore[attr-defined]
        cls.__new__ = logging_new
    else:
        orig_init = cls.__init__

        def logging_init(self, *a, **kw):
            log.append(("call", a, kw))
            orig_init(self, *a, **kw)
        logging_init.__signature__ = inspect.signature(orig_init)  # type: ignore[attr-defined]
        logging_init.__wrapped__ = orig_init  # type: ignore[attr-defined]
        logging_init.__annotations__ = getattr(orig_init, "__annotations__", {})
        cls.__init__ = logging_init
    return cls, defaults, src, {i: ns[f"_M{i}"] for i, f in enumerate(case["fields"]) if f.get("ld") == "utype"}


def param_name(f, kind):
    if kind == "attrs" and f["n"].startswith("_"):
        return f["n"].lstrip("_")
    return f["n"]


def attr_value(obj, f, kind):
    if kind == "pydantic":
        return getattr(obj, f["n"])
    return getattr(obj, f["n"])


def same_default(a, b) -> bool:
    """Type-exact equality (NaN equals NaN, -0.0 differs from 0.0)."""
    if type(a) is not type(b):
        return False
    if isinstance(a, float):
        return (a != a and b != b) or (a == b and math.copysign(1, a) == math.copysign(1, b))
    if isinstance(a, complex):
        return same_default(a.real, b.real) and same_default(a.imag, b.imag)
    if isinstance(a, Decimal):
        return a.as_tuple() == b.as_tuple()
    if isinstance(a, (tuple, list)):
        return len(a) == len(b) and all(same_default(x, y) for x, y in zip(a, b))
    if isinstance(a, (set, frozenset)):
        return len(a) == len(b) and all(any(same_default(x, y) for y in b) for x in a)
    if isinstance(a, dict):
        return len(a) == len(b) and all(k in b and same_default(v, b[k]) for k, v in a.items())
    if isinstance(a, TrueLike):
        return True
    if isinstance(a, (range, slice)):
        return a == b
    return a is b or a == b


# ------------------------------------------------------------------------------------ oracle
_SIMPLE_PVALS = {"None": None, "0": 0, "False": False, "empty_str": "", "empty_tuple": (), "Ellipsis": ...,
                 "NotImplemented": NotImplemented}
_REF: dict = {}
_REF_TYPES = {"int": int, "str": str, "optint": typing.Optional[int], "list": list}


def ref_loader(ld, sc, debug):
    """Standalone loader of a builtin field type: the reference for "the loaded value of a present field"."""
    key = (ld, sc, debug)
    if key not in _REF:
        _REF[key] = Retort(strict_coercion=sc, debug_trail=DEBUG[debug]).get_loader(_REF_TYPES[ld])
    return _REF[key]


def present_value(pv, f, i, defaults):
    """The object stored under a present key."""
    if pv in _SIMPLE_PVALS:
        return _SIMPLE_PVALS[pv]
    if pv == "eq_all":
        return EqAll()
    d = f["d"]
    if pv in ("default", "default_eq") and d is not None:
        if d[0] == "v":   # the declared default object itself / an equal object built anew
            return defaults[f["n"]] if pv == "default" else DEFAULTS[d[1]]()
        if d[0] == "f" and d[1] != "counter":
            return FACTORIES[d[1]]()
    ld = f.get("ld", "asis")
    if ld in ("int", "optint"):
        return 10 ** 6 + 7 * i
    if ld == "str":
        return f"s{i}-{f['n']}"
    if ld == "list":
        return [("item", f["n"])]
    return ("value-of", f["n"], object())   # identity is checked


def matches(exp, got) -> bool:
    return got is exp[1] if exp[0] == "is" else same_default(got, exp[1])


def check_case(ctx: runner.Ctx, case):
    if case.get("fam") == "tree":
        return check_tree(ctx, case)
    return check_flat(ctx, case)


def check_flat(ctx: runner.Ctx, case):  # noqa: C901, PLR0912, PLR0915
    kind, fields = case["kind"], case["fields"]
    if kind in ("namedtuple", "pydantic") and any(f["n"].startswith("_") for f in fields):
        ctx.count("skipped_private_name_not_expressible")
        return
    log: list = []
    try:
        cls, defaults, src, markers = build_model(case, log)
    except Exception as ex:  # noqa: BLE001  (Python / the model library refuses the generated class)
        ctx.count(f"class_refused_by_python:{type(ex).__name__}")
        return
    optional = [f for f in fields if f["d"] is not None]
    sc, debug = bool(case.get("sc", True)), case["debug"]
    lds = [f.get("ld", "asis") for f in fields]
    # which fields are present in the input: required ones always; positional-only ones too (adaptix documents
    # positional-only parameters as always required)
    present = {}
    pvals = case.get("pvals") or ["u"] * len(fields)
    for i, (f, p, pv) in enumerate(zip(fields, case["present"], pvals)):
        if f["d"] is None or p or f["pk"] == "pos_only" or case["layout"] == "list":
            present[f["n"]] = present_value(pv, f, i, defaults)
    recipe: list = [name_mapping(cls, as_list=True)] if case["layout"] == "list" else []

    def recorder(i):
        def rec(value):
            out = ("loaded", i, value)   # a fresh object per call: None, the default, ... are values like any other
            log.append(("ld", i, value, out))
            return out
        return rec
    for i, f in enumerate(fields):
        if lds[i] == "user":
            recipe.append(adaptix_loader(P[cls][f["n"]], recorder(i)))
        elif lds[i] == "utype":
            recipe.append(adaptix_loader(markers[i], recorder(i)))
    retort = Retort(recipe=recipe, debug_trail=DEBUG[debug], strict_coercion=sc)
    try:
        loader = retort.get_loader(cls)
    except ProviderNotFoundError as ex:
        if case["layout"] == "list" and optional:
            ctx.count("list_layout_with_optional_fields_refused_as_documented")
            return
        ctx.violation("loader_not_creatable", (kind, exc_site(ex)), case, f"model source:\n{src}\n{describe(ex.__cause__ or ex)}")
        return
    except Exception as ex:  # noqa: BLE001
        ctx.violation("loader_creation_crashed", (kind, type(ex).__name__, exc_site(ex)), case, f"model source:\n{src}\n{describe(ex)}")
        return
    if case["layout"] == "list":
        datum: typing.Any = [present[f["n"]] for f in fields]
    else:
        datum = {tspec.model_key(f["n"]): present[f["n"]] for f in fields if f["n"] in present}
        datum = wrap_mapping(datum, case.get("mapping", "dict"))
    # the loaded value of every present field: the object itself (``Any``), what the standalone loader of the field's
    # type makes of it (builtin loaders), or what the recording user loader returned (filled in after the load)
    base_exp: dict = {}
    rejected = []
    for i, f in enumerate(fields):
        if f["n"] not in present:
            continue
        if lds[i] in TYPED:
            try:
                base_exp[f["n"]] = ("eq", ref_loader(lds[i], sc, debug)(present[f["n"]]))
            except LoadError:
                rejected.append(f["n"])
            except Exception:  # noqa: BLE001  (the builtin loader itself misbehaves: C04's business)
                ctx.count("unspecified:reference_loader_raised_non_LoadError")
                return
        elif lds[i] == "asis":
            base_exp[f["n"]] = ("is", present[f["n"]])
    absent = [f for f in fields if f["n"] not in present]
    lookalike = any(f["d"][0] == "v" and f["d"][1] not in ("'x'", "-1", "2**70", "bytes_a") for f in absent) or \
        any(f["d"][0] in ("f", "fs") for f in absent)
    skipped_then_present = any(fields[i]["n"] not in present and any(g["n"] in present for g in fields[i + 1:])
                               for i in range(len(fields)))
    # a present optional key holding a "nothing here" look-alike while its loader is not the identity
    odd_through_loader = any(f["n"] in present and f["d"] is not None and pv != "u" and ld != "asis"
                             for f, pv, ld in zip(fields, pvals, lds))
    first_optional = bool(fields) and fields[0]["d"] is not None
    ctx.case([case], (bool(absent) and (lookalike or skipped_then_present)) or odd_through_loader,
             sample={"kind": kind, "fields": fields, "present": sorted(present), "layout": case["layout"], "debug": debug, "sc": sc,
                     "pvals": pvals},
             labels=[f"kind:{kind}", f"layout:{case['layout']}", f"absent:{min(len(absent), 3)}", f"strict_coercion:{sc}",
                     *([f"mapping:{case.get('mapping', 'dict')}"] if case["layout"] != "list" else []),
                     *[f"present_value:{pv}" for f, pv in zip(fields, pvals) if f["n"] in present and f["d"] is not None],
                     *[f"present_optional_loader:{ld}" for f, ld in zip(fields, lds) if f["n"] in present and f["d"] is not None],
                     *[f"odd_value_through_loader:{ld}:{'first' if i == 0 else 'later'}"
                       for i, (f, pv, ld) in enumerate(zip(fields, pvals, lds))
                       if f["n"] in present and f["d"] is not None and pv != "u" and ld != "asis"],
                     *(["present_default_None_holds_None_through_loader"] if any(
                         f["n"] in present and f["d"] == ["v", "None"] and present[f["n"]] is None and ld != "asis"
                         for f, ld in zip(fields, lds)) else []),
                     *(["first_field_optional"] if first_optional else []),
                     *(["expect_load_error"] if rejected else []),
                     *(["skipped_then_present"] if skipped_then_present else []),
                     *[f"pk:{f['pk']}" for f in fields], *[f"default:{f['d'][0]}" for f in fields if f["d"]]])
    head = (f"kind={kind} layout={case['layout']} debug={debug} strict_coercion={sc} fields={fields} present={sorted(present)} "
            f"datum={datum!r}\n{src}")

    if rejected:
        # the loader of a present field rejects the value: no object may be built
        log.clear()
        try:
            obj = loader(datum)
        except LoadError:
            if any(e[0] == "call" for e in log):
                ctx.violation("constructor_called_although_a_field_was_rejected", (kind,), case, f"{head}\nlog={log!r}")
            return
        except Exception as ex:  # noqa: BLE001
            ctx.violation("load_failed", (kind, type(ex).__name__, exc_site(ex)), case, f"{head}\n{describe(ex)}")
            return
        ctx.violation("load_accepted_a_value_the_field_loader_rejects",
                      ("+".join(sorted({lds[i] for i, f in enumerate(fields) if f["n"] in rejected})),
                       "+".join(sorted({pvals[i] for i, f in enumerate(fields) if f["n"] in rejected}))), case,
                      f"{head}\nthe standalone loader(s) of field(s) {rejected} raise LoadError for the value present in the input, "
                      f"the model loader returned {obj!r}")
        return

    results = []
    exps = []
    for _ in range(2):
        log.clear()
        try:
            obj = loader(datum)
        except Exception as ex:  # noqa: BLE001
            ctx.violation("load_failed", (kind, type(ex).__name__, exc_site(ex)), case, f"{head}\n{describe(ex)}")
            return
        calls = [e for e in log if e[0] == "call"]
        posts = [e for e in log if e[0] == "post_init"]
        # user loaders: exactly one call per present key, with exactly the value of the key; none for an absent key
        exp = dict(base_exp)
        for i, f in enumerate(fields):
            if lds[i] not in ("user", "utype"):
                continue
            mine = [e for e in log if e[0] == "ld" and e[1] == i]
            where = "first_field" if i == 0 else "later_field"
            if f["n"] not in present:
                if mine:
                    ctx.violation("field_loader_called_for_absent_key", (lds[i], where), case,
                                  f"{head}\nfield {f['n']} is absent, its loader was called with {[e[2] for e in mine]!r}")
                    return
                continue
            if len(mine) != 1 or mine[0][2] is not present[f["n"]]:
                ctx.violation("field_loader_not_called_once_with_the_present_value", (lds[i], where, str(len(mine))), case,
                              f"{head}\nfield {f['n']} is present with {present[f['n']]!r}; calls of its loader: "
                              f"{[e[2] for e in mine]!r}; constructor calls: {calls!r}")
                return
            exp[f["n"]] = ("is", mine[0][3])
        if len(calls) != 1:
            ctx.violation("constructor_call_count", (kind, str(len(calls))), case, f"{head}\ncalls={calls!r}")
            return
        if case.get("hooks") and kind != "namedtuple" and len(posts) != 1:
            ctx.violation("post_init_not_run", (kind, str(len(posts))), case, f"{head}\nlog={log!r}")
        _, args, kwargs = calls[0]
        sig = inspect.signature(cls)
        try:
            bound = sig.bind(*args, **kwargs)
        except TypeError as te:
            ctx.violation("call_does_not_bind", (kind,), case, f"{head}\nargs={args!r} kwargs={kwargs!r}: {te}")
            return
        for f in fields:
            pn = param_name(f, kind)
            if f["n"] in present:
                if pn not in bound.arguments or not matches(exp[f["n"]], bound.arguments[pn]):
                    ctx.violation("present_value_bound_to_wrong_parameter",
                                  (kind, f["pk"], "after_skipped" if skipped_then_present else "plain",
                                   "+".join(sorted({x["d"][0] for x in absent}))), case,
                                  f"{head}\nparameter {pn} got {bound.arguments.get(pn, '<nothing>')!r}, the loaded value of the "
                                  f"present field is {exp[f['n']][1]!r}; args={args!r} kwargs={kwargs!r}")
            elif pn in bound.arguments:
                d = f["d"]
                passed = bound.arguments[pn]
                if d[0] == "v" and not same_default(passed, defaults[f["n"]]):
                    ctx.violation("absent_field_passed_lookalike_default", (kind, d[1]), case,
                                  f"{head}\nparameter {pn} of absent field was passed {passed!r} ({type(passed).__name__}); "
                                  f"declared default {defaults[f['n']]!r} ({type(defaults[f['n']]).__name__})")
        results.append(obj)
        exps.append(exp)
    # compare with direct construction from the loaded values of the present fields
    exp = exps[0]
    pos_args = [exp[f["n"]][1] for f in fields if f["pk"] == "pos_only"]
    kw_args = {param_name(f, kind): exp[f["n"]][1] for f in fields if f["pk"] != "pos_only" and f["n"] in present}
    log.clear()
    try:
        direct = cls(*pos_args, **kw_args)
    except Exception as ex:  # noqa: BLE001
        raise env.HarnessError(f"direct construction failed: {ex!r}\n{head}") from ex
    for f in fields:
        got = attr_value(results[0], f, kind)
        expv = attr_value(direct, f, kind)
        d = f["d"]
        if f["n"] in present:
            if not matches(exp[f["n"]], got):
                ctx.violation("present_value_lost", (kind,), case, f"{head}\nfield {f['n']}: {got!r}, loaded value {exp[f['n']][1]!r}")
            continue
        if d[0] == "v":
            if not same_default(got, expv):
                ctx.violation("absent_field_not_true_default", (kind, d[1]), case,
                              f"{head}\nfield {f['n']} holds {got!r} ({type(got).__name__}); the model itself produces "
                              f"{expv!r} ({type(expv).__name__})")
        elif d[0] == "f":
            got2 = attr_value(results[1], f, kind)
            if d[1] == "counter":
                ncounters = sum(1 for x in absent if x["d"] == ["f", "counter"])  # one shared counter, one call per field
                if not (type(got) is int and type(got2) is int and got2 == got + ncounters):
                    ctx.violation("factory_not_called_once_per_load", (kind,), case, f"{head}\ncounter values {got!r}, {got2!r}")
            else:
                if type(got) is not type(expv) or got != expv:
                    ctx.violation("absent_field_not_factory_result", (kind, d[1]), case, f"{head}\nfield {f['n']}: {got!r} vs {expv!r}")
                if isinstance(got, (list, dict, set, bytearray)) and (got is got2 or got is expv):
                    ctx.violation("factory_result_shared", (kind, d[1]), case, f"{head}\nfield {f['n']}: same object in two loads")
        elif d[0] == "fs":
            if got != ("from_self", True):
                ctx.violation("takes_self_factory_wrong", (kind,), case, f"{head}\nfield {f['n']}: {got!r}")


# ------------------------------------------------------------------------------------ tree family
# Recursive / mutually recursive models whose compiled loader is re-entered while an object is being loaded; every node of
# the data carries its own subset of optional keys.  The oracle is the same: each object is built by one constructor call
# from exactly the loaded values of the keys present in ITS OWN datum.
TREE_KINDS = ["typeddict", "typeddict", "attrs", "attrs", "dataclass"]
TREE_DEFAULTS = ["None", "Ellipsis", "0", "Decimal1", "(1,)", "'x'"]
SHAPE_ANN = {"one": "{t}", "opt": "typing.Optional[{t}]", "list": "list[{t}]", "dict": "dict[str, {t}]"}
# attrs: a forward reference inside a builtin generic (``list['M']``) or a whole-string annotation is not resolvable from the
# generated ``__init__`` (attrs gives it a copy of the module namespace made before the class exists) and adaptix reads the
# hints of ``__init__``: NameError at loader creation, see notes/C08.md.  typing generics share their ForwardRef objects with
# the class annotations, which adaptix resolves first -- spelled that way the models load.
SHAPE_ANN_ATTRS = {"opt": "typing.Optional[{t}]", "list": "typing.List[{t}]", "dict": "typing.Dict[str, {t}]"}


@st.composite
def st_node(draw, models, m, depth, budget, root=False):
    budget[0] -= 1
    node = {"m": m, "s": [], "l": []}
    for f in models[m]["fields"]:
        if f["role"] == "scalar":
            node["s"].append(draw(st.sampled_from([None, None, "u", "u", "u", "None", "Ellipsis"])))
            continue
        if depth <= 0 or budget[0] <= 0 or (not (root and not node["l"]) and draw(st.sampled_from([True, True, True, True, False])) is False):
            node["l"].append(None)   # (the first link of the root is there whenever the drawn depth allows it)
        elif f["shape"] in ("list", "dict"):
            node["l"].append([draw(st_node(models, f["to"], depth - 1, budget)) for _ in range(draw(st.sampled_from([1, 2, 2, 0])))])
        elif f["shape"] == "opt" and draw(st.integers(0, 7)) == 0:
            node["l"].append("none")
        else:
            node["l"].append(draw(st_node(models, f["to"], depth - 1, budget)))
    return node


@st.composite
def st_tree(draw):
    kind = draw(st.sampled_from(TREE_KINDS))
    nmodels = draw(st.sampled_from([1, 1, 2]))
    models = []
    for _ in range(nmodels):
        fields = []
        for nm in ["a", "b", "c", "d"][:draw(st.integers(1, 4))]:
            if kind == "typeddict":
                f = {"n": nm, "role": "scalar", "opt": draw(st.sampled_from(["nr", "nr", "bare"]))}
            elif kind == "attrs":
                f = {"n": nm, "role": "scalar", "opt": draw(st.sampled_from(["fs", "fs", "v", "f"]))}
            else:
                f = {"n": nm, "role": "scalar", "opt": draw(st.sampled_from(["v", "v", "f"]))}
            if f["opt"] == "v":
                f["dv"] = draw(st.sampled_from(TREE_DEFAULTS))
            f["ld"] = draw(st.sampled_from(["asis", "asis", "user"]))
            fields.append(f)
        for nm in ["child", "other"][:draw(st.sampled_from([1, 1, 2]))]:
            f = {"n": nm, "role": "link", "to": draw(st.integers(0, nmodels - 1)),
                 "shape": draw(st.sampled_from(["one", "one", "opt", "list", "dict"])),
                 # the link is loaded by adaptix itself, or by a user loader that calls ``retort.load`` for the target model
                 "re": draw(st.integers(0, 3)) == 0}
            if kind == "typeddict":
                f["opt"] = draw(st.sampled_from(["nr", "nr", "bare"]))
            else:
                if f["shape"] == "one":
                    f["shape"] = "opt"   # a class attribute needs a default to be optional: None
                f["opt"] = draw(st.sampled_from(["d", "d", "fs"])) if kind == "attrs" else "d"
            fields.append(f)
        fields = draw(st.permutations(fields))
        models.append({"fields": list(fields), "total": draw(st.booleans()), "uid_req": draw(st.integers(0, 3)) != 0})
    if nmodels == 2 and not any(f["role"] == "link" and f["to"] == 1 for f in models[0]["fields"]):
        next(f for f in models[0]["fields"] if f["role"] == "link")["to"] = 1   # the second model is reachable
    depth = draw(st.sampled_from([2, 3, 2, 3, 4, 2, 3, 4, 1, 0]))
    data = draw(st_node(models, 0, depth, [draw(st.sampled_from([6, 12, 20]))], root=True))
    return {"fam": "tree", "kind": kind, "models": models, "data": data, "debug": draw(st.integers(0, 2)),
            "hooks": draw(st.booleans())}


def build_tree_models(case, log, modname):  # noqa: C901, PLR0912
    kind, models = case["kind"], case["models"]
    mod = types.ModuleType(modname)
    ns = mod.__dict__
    ns.update({"dataclasses": dataclasses, "typing": typing, "Any": typing.Any, "LOG": log})
    if kind == "attrs":
        import attrs  # noqa: PLC0415
        ns["attrs"] = attrs
    names = [f"C08T{next(_uid)}" for _ in models]
    lines = []
    dvals: dict = {}
    for m, ms in enumerate(models):
        cname = names[m]
        total = ms["total"] and not any(f["opt"] == "bare" for f in ms["fields"])
        if kind == "typeddict":
            lines.append(f"class {cname}(typing.TypedDict, total={total}):")
            lines.append("    uid: Any" if total else ("    uid: typing.Required[Any]" if ms["uid_req"] else "    uid: Any"))
        elif kind == "attrs":
            lines += ["@attrs.define", f"class {cname}:", "    uid: Any"]
        else:
            lines += ["@dataclasses.dataclass", f"class {cname}:", "    uid: Any"]
        for i, f in enumerate(ms["fields"]):
            if f["role"] == "scalar" or f["re"]:
                ann = "Any"
            else:
                ann = (SHAPE_ANN_ATTRS if kind == "attrs" else SHAPE_ANN)[f["shape"]].format(t=repr(names[f["to"]]))
            if kind == "typeddict":
                lines.append(f"    {f['n']}: {ann}" if f["opt"] == "bare" else f"    {f['n']}: typing.NotRequired[{ann}]")
                continue
            fld = "attrs.field" if kind == "attrs" else "dataclasses.field"
            fac = "factory" if kind == "attrs" else "default_factory"
            if f["opt"] == "fs":
                dflt = "default=attrs.Factory(lambda self: ('from_self', self.uid), takes_self=True)"
            elif f["opt"] == "v":
                dvals[m, f["n"]] = ns[f"_D{m}_{i}"] = DEFAULTS[f["dv"]]()
                dflt = f"default=_D{m}_{i}"
            elif f["opt"] == "f":
                dflt = f"{fac}=list"
            else:  # "d": the natural default of a link
                dflt = {"opt": "default=None", "list": f"{fac}=list", "dict": f"{fac}=dict"}[f["shape"]]
            lines.append(f"    {f['n']}: {ann} = {fld}({dflt})")
        if kind != "typeddict" and case.get("hooks"):
            hook = "__attrs_post_init__" if kind == "attrs" else "__post_init__"
            lines += [f"    def {hook}(self):", f"        LOG.append(('post_init', {m}, self.uid))"]
        lines.append("")
    src = "\n".join(lines) + "\n"
    exec(compile(src, f"<c08 {modname}>", "exec", dont_inherit=True), ns)  # noqa: S102
    classes = [ns[n] for n in names]
    if kind != "typeddict":
        for m, cls in enumerate(classes):
            def wrap(cls=cls, m=m):
                orig_init = cls.__init__

                def logging_init(self, *a, **kw):
                    log.append(("call", m, a, kw))
                    orig_init(self, *a, **kw)
                logging_init.__signature__ = inspect.signature(orig_init)  # type: ignore[attr-defined]
                logging_init.__wrapped__ = orig_init  # type: ignore[attr-defined]
                logging_init.__annotations__ = getattr(orig_init, "__annotations__", {})
                cls.__init__ = logging_init
            wrap()
    return mod, classes, dvals, src


def check_tree(ctx: runner.Ctx, case):  # noqa: C901, PLR0912, PLR0915
    kind, models = case["kind"], case["models"]
    log: list = []
    modname = f"c08_dyn_{next(_uid)}"
    mod, classes, dvals, src = build_tree_models(case, log, modname)
    sys.modules[modname] = mod    # forward references between the models resolve through the module of the classes
    try:
        _check_tree(ctx, case, kind, models, classes, dvals, src, log)
    finally:
        sys.modules.pop(modname, None)


def _check_tree(ctx, case, kind, models, classes, dvals, src, log):  # noqa: C901, PLR0912, PLR0915
    holder: list = []
    recipe = []

    def recorder(m, n):
        def rec(value):
            out = ("loaded", m, n, value)
            log.append(("ld", m, n, value, out))
            return out
        return rec

    def reenter(m, f):
        target = classes[f["to"]]

        def load_link(value):   # user code that loads the target model through the same retort while a load is running
            log.append(("re", m, f["n"]))
            load = holder[0].load
            if f["shape"] == "list":
                return [load(x, target) for x in value]
            if f["shape"] == "dict":
                return {k: load(x, target) for k, x in value.items()}
            return None if (value is None and f["shape"] == "opt") else load(value, target)
        return load_link
    for m, ms in enumerate(models):
        for f in ms["fields"]:
            if f["role"] == "scalar" and f["ld"] == "user":
                recipe.append(adaptix_loader(P[classes[m]][f["n"]], recorder(m, f["n"])))
            elif f["role"] == "link" and f["re"]:
                recipe.append(adaptix_loader(P[classes[m]][f["n"]], reenter(m, f)))
    retort = Retort(recipe=recipe, debug_trail=DEBUG[case["debug"]])
    holder.append(retort)

    # ---- the datum and, per node, what its object must be built from
    infos: list = []

    def mk(node, ancestors):
        m = node["m"]
        info = {"m": m, "uid": ("uid", len(infos)), "present": {}, "links": {}, "anc": ancestors}
        infos.append(info)
        datum = {"uid": info["uid"]}
        si = li = 0
        for f in models[m]["fields"]:
            if f["role"] == "scalar":
                pv = node["s"][si]
                si += 1
                if pv is not None:
                    datum[f["n"]] = info["present"][f["n"]] = _SIMPLE_PVALS[pv] if pv in _SIMPLE_PVALS else ("val", info["uid"], f["n"])
                continue
            sub = node["l"][li]
            li += 1
            if sub is None:
                continue
            if sub == "none":
                datum[f["n"]], info["links"][f["n"]] = None, "none"
            elif isinstance(sub, list):
                made = [mk(x, [*ancestors, info]) for x in sub]
                info["links"][f["n"]] = [i for i, _ in made]
                datum[f["n"]] = [d for _, d in made] if f["shape"] == "list" else {f"k{j}": d for j, (_, d) in enumerate(made)}
            else:
                info["links"][f["n"]], datum[f["n"]] = mk(sub, [*ancestors, info])
        info["keys"] = set(info["present"]) | set(info["links"])
        return info, datum
    root, datum = mk(case["data"], [])
    try:
        loader = retort.get_loader(classes[0])
    except Exception as ex:  # noqa: BLE001
        ctx.violation("loader_creation_crashed", (kind, type(ex).__name__, exc_site(ex)), case, f"model source:\n{src}\n{describe(ex)}")
        return
    # a loader is re-entered for a node when an ancestor is of the same model; interesting when their key subsets differ
    reentered = [i for i in infos if any(a["m"] == i["m"] for a in i["anc"])]
    differing = [i for i in infos if any(a["m"] == i["m"] and a["keys"] != i["keys"] for a in i["anc"])]
    depth = max(len(i["anc"]) for i in infos)
    packed = any(f["opt"] in ("nr", "bare", "fs") for ms in models for f in ms["fields"])
    via_user_code = any(f["role"] == "link" and f["re"] and f["n"] in i["links"] for i in infos for f in models[i["m"]]["fields"])
    ctx.case([case], bool(differing),
             sample={"kind": kind, "models": models, "depth": depth, "nodes": len(infos)},
             labels=[f"tree:kind:{kind}", f"tree:depth:{depth}", f"tree:nodes:{min(len(infos), 8) // 2 * 2}+", f"tree:models:{len(models)}",
                     *(["tree:loader_reentered"] if reentered else []),
                     *(["tree:reentered_with_different_key_subset"] if differing else []),
                     *(["tree:reentered_with_different_key_subset:packed_fields"] if differing and packed else []),
                     *(["tree:reentered_from_user_loader"] if via_user_code else []),
                     *(["tree:reentered_from_user_loader:different_key_subset"] if via_user_code and differing else [])])
    head = f"tree kind={kind} debug={case['debug']} datum={datum!r}\n{src}"
    try:
        result = loader(datum)
    except Exception as ex:  # noqa: BLE001
        ctx.violation("load_failed", (kind, type(ex).__name__, exc_site(ex)), case, f"{head}\n{describe(ex)}")
        return

    # ---- constructor calls, keyed by the uid object they were given
    calls_by_uid: dict = {}
    ncalls = 0
    if kind != "typeddict":
        sigs = [inspect.signature(c) for c in classes]
        for e in log:
            if e[0] != "call":
                continue
            ncalls += 1
            try:
                bound = sigs[e[1]].bind(*e[2], **e[3])
            except TypeError as te:
                ctx.violation("call_does_not_bind", (kind,), case, f"{head}\nargs={e[2]!r} kwargs={e[3]!r}: {te}")
                return
            calls_by_uid.setdefault(id(bound.arguments.get("uid")), []).append(bound)
        if ncalls != len(infos):
            ctx.violation("constructor_call_count", (kind, "tree", "more" if ncalls > len(infos) else "fewer"), case,
                          f"{head}\n{len(infos)} objects in the input, {ncalls} constructor calls")
            return
        if case.get("hooks"):
            posts = [e for e in log if e[0] == "post_init"]
            if len(posts) != len(infos):
                ctx.violation("post_init_not_run", (kind, "tree"), case, f"{head}\n{len(posts)} hook runs for {len(infos)} objects")
    ld_entries = [e for e in log if e[0] == "ld"]
    used_out: set = set()
    fresh_ids: set = set()
    problems = []

    def verify(info, obj):  # noqa: C901, PLR0912
        m = info["m"]
        ms, cls, uid = models[m], classes[m], info["uid"]
        how = "reentered" if any(a["m"] == m for a in info["anc"]) else "outermost"
        if kind == "typeddict":
            if type(obj) is not dict:
                problems.append(("result_type", (kind,), f"object {uid}: {obj!r}"))
                return
            missing, extra = (info["keys"] | {"uid"}) - set(obj), set(obj) - info["keys"] - {"uid"}
            if missing or extra:
                problems.append(("object_built_from_wrong_field_set",
                                 (kind, "+".join(x for x, y in (("missing", missing), ("extra", extra)) if y), how),
                                 f"object {uid}: keys present in its input {sorted(info['keys'])}, built from {sorted(obj)}"))
                return

            def getv(n):
                return obj[n]
        else:
            if type(obj) is not cls:
                problems.append(("result_type", (kind,), f"object {uid}: {obj!r}"))
                return
            bounds = calls_by_uid.get(id(uid), [])
            if len(bounds) != 1:
                problems.append(("constructor_call_count", (kind, "per_object", str(len(bounds))), f"object {uid}"))
                return
            passed = {k: v for k, v in bounds[0].arguments.items() if k != "uid"}
            missing = info["keys"] - set(passed)
            extra = {f["n"] for f in ms["fields"] if f["n"] in passed and f["n"] not in info["keys"] and f["opt"] == "fs"}
            if missing or extra:
                problems.append(("object_built_from_wrong_field_set",
                                 (kind, "+".join(x for x, y in (("missing", missing), ("extra", extra)) if y), how),
                                 f"object {uid}: keys present in its input {sorted(info['keys'])}, constructor was passed "
                                 f"{sorted(passed)} (a takes_self default can not be passed by the loader)"))
                return

            def getv(n):
                return getattr(obj, n)
            for n in info["keys"]:
                if passed[n] is not getv(n):
                    problems.append(("constructor_argument_is_not_the_attribute", (kind,), f"object {uid} field {n}"))
        for f in ms["fields"]:
            n = f["n"]
            if n not in info["keys"]:
                if kind == "typeddict":
                    continue
                got = getv(n)   # what the model itself produces for an omitted field
                if f["opt"] == "fs":
                    ok = type(got) is tuple and len(got) == 2 and got[0] == "from_self" and got[1] is uid
                elif f["opt"] == "v":
                    ok = same_default(got, dvals[m, n])
                else:
                    want = None if f["opt"] == "d" and f["shape"] == "opt" else ({} if f.get("shape") == "dict" and f["opt"] == "d" else [])
                    ok = type(got) is type(want) and got == want
                    if want is not None:
                        ok = ok and id(got) not in fresh_ids
                        fresh_ids.add(id(got))
                if not ok:
                    problems.append(("absent_field_not_true_default", (kind, "tree", f["opt"], how),
                                     f"object {uid} field {n} holds {got!r}"))
                continue
            got = getv(n)
            if f["role"] == "scalar":
                val = info["present"][n]
                if f["ld"] == "asis":
                    ok = got is val
                else:
                    ok = any(e[4] is got and e[3] is val and e[1] == m and e[2] == n for e in ld_entries) and id(got) not in used_out
                    used_out.add(id(got))
                if not ok:
                    problems.append(("present_value_lost", (kind, "tree", f["ld"], how),
                                     f"object {uid} field {n}: input {val!r}, object holds {got!r}"))
                continue
            sub = info["links"][n]
            if sub == "none":
                if got is not None:
                    problems.append(("present_value_lost", (kind, "tree", "link_none", how), f"object {uid} field {n}: {got!r}"))
            elif isinstance(sub, list):
                if f["shape"] == "list":
                    items = list(got) if type(got) is list else None
                else:
                    items = list(got.values()) if type(got) is dict and list(got) == [f"k{j}" for j in range(len(sub))] else None
                if items is None or len(items) != len(sub):
                    problems.append(("present_value_lost", (kind, "tree", "link_" + f["shape"], how), f"object {uid} field {n}: {got!r}"))
                else:
                    for x, o in zip(sub, items):
                        verify(x, o)
            else:
                verify(sub, got)
    verify(root, result)
    # every user loader: one call per present key of every object, nothing else
    want_ld = sum(1 for i in infos for f in models[i["m"]]["fields"] if f["role"] == "scalar" and f["ld"] == "user" and f["n"] in i["present"])
    if not problems and len(ld_entries) != want_ld:
        problems.append(("field_loader_not_called_once_with_the_present_value", ("tree", kind),
                         f"{want_ld} present keys with a user loader, {len(ld_entries)} loader calls"))
    for k, discr, text in problems[:3]:
        ctx.violation(k, discr, case, f"{head}\nresult={result!r}\n{text}")


# ------------------------------------------------------------------------------------ bounded table
# "Is the key there?" must not depend on what the key holds, what the default is, where the field stands, which loader the
# field has or which code variant (debug_trail) is generated: enumerate the product completely, through check_flat.
TABLE_LAYOUTS = [   # P = the probed optional field; r = required; o+ / o- = another optional field, present / absent
    ["P"], ["P", "r"], ["r", "P"], ["P", "o+"], ["o-", "P", "o+"], ["o+", "P"], ["r", "o-", "P"],
]
TABLE_DEFAULTS = [["v", "None"], ["v", "Ellipsis"], ["v", "0"], ["v", "''"], ["f", "list"], ["fs"],
                  ["v", "NotImplemented"], ["v", "False"]]
TABLE_VALUES = [None, "None", "Ellipsis", "0", "empty_str", "default_eq", "eq_all", "u", "NotImplemented", "False"]   # None = key absent
TABLE_LOADERS = ["asis", "user", "int", "str", "optint", "utype"]
TABLE_BOUNDS = {"quick": (5, 6, 8, 5), "thorough": (7, 8, 10, 6)}   # how many layouts / defaults / values / loaders


def table_cases(tier):
    nl, nd, nv, nld = TABLE_BOUNDS[tier]
    kinds = ["dataclass", "attrs"] if tier == "quick" else ["dataclass", "attrs", "plain", "pydantic"]
    for kind, layout, d, pv, ld, debug, sc in itertools.product(kinds, TABLE_LAYOUTS[:nl], TABLE_DEFAULTS[:nd], TABLE_VALUES[:nv],
                                                                TABLE_LOADERS[:nld], range(3), (True, False)):
        if d == ["fs"] and kind != "attrs":
            continue
        if tier == "quick" and kind == "attrs" and d != ["fs"]:
            continue    # quick tier: attrs contributes what only attrs has, the default the loader can not evaluate itself
        if d[0] == "f" and kind == "plain":
            continue
        if kind == "pydantic" and (ld not in ("asis", "user") or d == ["v", "Ellipsis"]):
            continue
        if not sc and ld in ("asis", "user", "utype"):
            continue    # strict_coercion only selects among builtin loaders
        fields, present, pvals = [], [], []
        for j, role in enumerate(layout):
            if role == "P":
                fields.append({"n": "p", "pk": "kw_only", "d": d, "ld": ld})
                present.append(pv is not None)
                pvals.append(pv or "u")
            elif role == "r":
                fields.append({"n": f"r{j}", "pk": "kw_only", "d": None, "ld": "asis"})
                present.append(True)
                pvals.append("u")
            else:
                fields.append({"n": f"o{j}", "pk": "kw_only", "d": ["v", "'x'"], "ld": "asis"})
                present.append(role == "o+")
                pvals.append("None")
        if kind == "pydantic":
            for f in fields:
                f["pk"] = "pos_or_kw"   # every pydantic field is keyword-only anyway
        yield {"kind": kind, "fields": fields, "present": present, "layout": "dict", "debug": debug, "hooks": False,
               "pvals": pvals, "mapping": "dict", "sc": sc, "table": True}


def explore(ctx: runner.Ctx):
    for i, case in enumerate(table_cases(ctx.tier)):
        if i % ctx.nshards == ctx.shard:
            if ctx.out_of_time():
                break
            runner.guarded(ctx, lambda c: check_case(ctx, c), case)
    nl, nd, nv, nld = TABLE_BOUNDS[ctx.tier]
    ctx.mark_exhaustive(f"table: position of the optional field {TABLE_LAYOUTS[:nl]} (keyword-only fields) x default {TABLE_DEFAULTS[:nd]} "
                        f"x key absent (None) / present with {TABLE_VALUES[:nv]} x field loader {TABLE_LOADERS[:nld]} x debug_trail x "
                        f"strict_coercion (builtin loaders); model kinds: dataclass, attrs (quick: only for the takes_self default)"
                        + ("" if ctx.tier == "quick" else ", plain class, pydantic"))
    ctx.given(st_flat(), lambda c: check_case(ctx, c), ctx.budget(9000, 180000))
    ctx.given(st_tree(), lambda c: check_case(ctx, c), ctx.budget(1600, 40000), seed_offset=17)


def st_case():
    return st.one_of(st_flat(), st_tree())


RULE = ("cases = (model kind, fields with parameter kinds, defaults/factories from the look-alike pool and a loader kind, which "
        "optional fields are present and what they hold, dict/list layout, mapping type, debug mode, strict_coercion, hooks); "
        "non-trivial = >= 1 optional field absent and (its default is a look-alike / factory, or a present field follows a "
        "skipped one), or a present optional key holds a nothing-look-alike (None, Ellipsis, falsy, the default, ...) while "
        "its loader is not the identity.  Tree cases = (recursive / mutually recursive TypedDict / attrs / dataclass models, "
        "data tree with a per-node subset of optional keys, links loaded by adaptix or by a user loader re-entering the "
        "retort); non-trivial = some object is loaded while an object of the same model with a different subset of optional "
        "keys is being loaded.  Distinct by the whole case.")

if __name__ == "__main__":
    raise SystemExit(runner.main(
        PROP, explore=explore, check_case=check_case, strategy=st_case(), rule=RULE,
        assumptions=["positional-only parameters are always given in the input (adaptix treats them as required fields)",
                     "fields annotated Any are passed as is (identity is checked); a field with a user loader must receive the "
                     "very object the loader returned; a field with a builtin loader must receive a value type-exactly equal to "
                     "what the standalone loader of that type returns (and the load must fail iff that loader raises LoadError)"],
    ))
