"""C08 -- models are built by their own constructor; omitted fields get the true default.

Generated: instrumented models (dataclass incl. kw_only, attrs incl. Factory / takes_self / kw_only / private names,
plain classes whose __init__ mixes positional-only / positional-or-keyword / keyword-only parameters, NamedTuple,
pydantic v2) whose constructor logs (args, kwargs); defaults drawn from a look-alike pool (0 1 True False None 0.0 -0.0
1.0 nan Decimal Fraction complex IntEnum/IntFlag members valued 0/1, '' b'' () frozenset(), range, slice, Ellipsis,
NotImplemented, builtin types and functions, objects imitating True, containers of these) and factories (list, dict,
set, lambdas returning fresh containers, counters, attrs takes_self).  Input = required fields + a generated subset of
the optional ones; dict and list layouts.

Oracle: exactly one constructor call per load; the call binds to the signature; every *present* field's value is bound
(by identity) to its own parameter; a parameter of an *absent* field is either not passed or passed the true default
(same type, equal); the result is attribute-wise equal with exact types to the object the harness builds directly
from the present fields; factory results are fresh per load; post-init hooks ran.
"""
from __future__ import annotations

import dataclasses
import collections
import enum
import inspect
import itertools
import math
import types
import typing
from decimal import Decimal
from fractions import Fraction

from vkit import env, runner
from vkit.errors import describe, exc_site

env.import_adaptix()

from hypothesis import strategies as st  # noqa: E402

from adaptix import DebugTrail, ProviderNotFoundError, Retort, name_mapping  # noqa: E402
from vkit import tspec  # noqa: E402

PROP = "C08"
DEBUG = [DebugTrail.DISABLE, DebugTrail.FIRST, DebugTrail.ALL]


class IE(enum.IntEnum):
    ZERO = 0
    ONE = 1


class IF(enum.IntFlag):
    NONE = 0
    A = 1


class SE(str, enum.Enum):
    EMPTY = ""
    T = "True"


class Point(typing.NamedTuple):
    x: int
    y: int


class Version(typing.NamedTuple):
    major: int
    minor: int
    tag: typing.Optional[str]


class TupleSub(tuple):
    pass


class StrSub(str):
    pass


class IntSub(int):
    pass


class TrueLike:
    def __eq__(self, other):
        return other is True or isinstance(other, TrueLike)

    def __hash__(self):
        return hash(True)

    def __repr__(self):
        return "TrueLike()"


DEFAULTS = {
    "0": lambda: 0, "1": lambda: 1, "True": lambda: True, "False": lambda: False, "None": lambda: None,
    "0.0": lambda: 0.0, "-0.0": lambda: -0.0, "1.0": lambda: 1.0, "nan": lambda: float("nan"), "inf": lambda: float("inf"),
    "Decimal0": lambda: Decimal("0"), "Decimal1": lambda: Decimal("1"), "Decimal1.0": lambda: Decimal("1.0"),
    "Fraction1": lambda: Fraction(1), "Fraction0": lambda: Fraction(0), "complex1": lambda: complex(1), "complex0": lambda: 0j,
    "IE.ZERO": lambda: IE.ZERO, "IE.ONE": lambda: IE.ONE, "IF.NONE": lambda: IF.NONE, "IF.A": lambda: IF.A,
    "SE.EMPTY": lambda: SE.EMPTY, "SE.T": lambda: SE.T,
    "''": lambda: "", "b''": lambda: b"", "()": lambda: (), "frozenset()": lambda: frozenset(),
    "range": lambda: range(1, 10, 2), "range0": lambda: range(0), "slice": lambda: slice(1, 7, 3), "Ellipsis": lambda: ...,
    "NotImplemented": lambda: NotImplemented, "int": lambda: int, "len": lambda: len, "print": lambda: print,
    "TrueLike": TrueLike, "(Decimal1,)": lambda: (Decimal("1"),), "(True,1,1.0)": lambda: (True, 1, 1.0),
    "frozenset({IE.ONE})": lambda: frozenset({IE.ONE}), "bytearray-like": lambda: b"\x00",
    "'x'": lambda: "x", "-1": lambda: -1, "2**70": lambda: 2 ** 70, "(nan,)": lambda: (float("nan"),),
    # ints above the int-to-str digit limit have no decimal text: they cannot be rendered as literals
    "10**5000": lambda: 10 ** 5000, "(1,10**5000)": lambda: (1, -10 ** 5000),
    # dict defaults whose keys have no literal form
    "{IE.ONE:1}": lambda: {IE.ONE: 1}, "{(1,Decimal1):2}": lambda: {(1, Decimal("1")): (True, 1)},
    "'quote\"\\'\\n'": lambda: "quote\"'\n{}",
    # plain literal containers (rendered inline by the code generator) and their look-alikes
    "(1,)": lambda: (1,), "((1,2),)": lambda: ((1, 2),), "(1,0)": lambda: (1, 0), "(True,False)": lambda: (True, False),
    "(1.0,0.0)": lambda: (1.0, 0.0), "(0,)": lambda: (0,), "(False,)": lambda: (False,), "(0.0,10)": lambda: (0.0, 10),
    "(-0.0,10)": lambda: (-0.0, 10), "(None,)": lambda: (None,), "((),)": lambda: ((),), "('a',)": lambda: ("a",),
    "frozenset({1})": lambda: frozenset({1}), "frozenset({True})": lambda: frozenset({True}), "(1,(2,(3,)))": lambda: (1, (2, (3,))),
    "Point(0,0)": lambda: Point(0, 0), "Version(1,0,None)": lambda: Version(1, 0, None), "TupleSub((1,2))": lambda: TupleSub((1, 2)),
    "StrSub('')": lambda: StrSub(""), "IntSub(0)": lambda: IntSub(0), "(IE.ONE,IE.ZERO)": lambda: (IE.ONE, IE.ZERO),
    "(Decimal1,Decimal0)": lambda: (Decimal("1"), Decimal("0")), "(Fraction1,Fraction0)": lambda: (Fraction(1), Fraction(0)),
    "slice(None)": lambda: slice(None), "range(3)": lambda: range(3), "bytes_a": lambda: b"a",
}
_counter_seq = itertools.count(1000)
FACTORIES = {
    "list": list, "dict": dict, "set": set, "lambda_list": lambda: [1, 2], "lambda_dict": lambda: {"k": []},
    "counter": lambda: next(_counter_seq), "tuple": tuple, "str": str, "bytearray": bytearray,
}
KINDS = ["dataclass", "attrs", "plain", "namedtuple", "pydantic"]
NAMES = ["a", "b", "c", "d", "e", "f_", "_g", "data", "value", "self_"]


# ------------------------------------------------------------------------------------ strategies
@st.composite
def st_case(draw):
    kind = draw(st.sampled_from(KINDS))
    n = draw(st.integers(1, 6))
    names = draw(st.lists(st.sampled_from(NAMES), min_size=n, max_size=n, unique=True))
    if kind in ("namedtuple", "pydantic"):
        names = [x for x in names if not x.startswith("_")] or ["a"]
    fields = []
    for nm in names:
        f = {"n": nm, "pk": "pos_or_kw", "d": None}
        r = draw(st.integers(0, 9))
        if r < 4:
            f["d"] = ["v", draw(st.sampled_from(sorted(DEFAULTS)))]
            if kind == "pydantic" and f["d"][1] == "Ellipsis":
                f["d"] = ["v", "NotImplemented"]  # pydantic reads ``= ...`` as "required"
        elif r < 6 and kind in ("dataclass", "attrs", "pydantic"):
            f["d"] = ["f", draw(st.sampled_from(sorted(FACTORIES)))]
        elif r == 6 and kind == "attrs":
            f["d"] = ["fs"]
        if kind in ("plain", "dataclass", "attrs") and draw(st.integers(0, 3)) == 0:
            f["pk"] = "kw_only"
        elif kind == "plain" and draw(st.integers(0, 4)) == 0:
            f["pk"] = "pos_only"
        fields.append(f)
    # python ordering rules: pos_only < pos_or_kw < kw_only; within the positional part required before optional
    order = {"pos_only": 0, "pos_or_kw": 1, "kw_only": 2}
    pos = sorted([f for f in fields if f["pk"] != "kw_only"], key=lambda f: (f["d"] is not None, ))
    seen_default = False
    for f in pos:
        seen_default = seen_default or f["d"] is not None
    npos_only = sum(1 for f in pos if f["pk"] == "pos_only")
    for i, f in enumerate(pos):
        f["pk"] = "pos_only" if i < npos_only else "pos_or_kw"
    if kind in ("dataclass", "attrs"):
        # a keyword-only field may be declared anywhere: the order of *fields* then differs from the order of the
        # constructor's *parameters* (keyword-only parameters come last in the signature)
        it = iter(pos)
        fields = [f if f["pk"] == "kw_only" else next(it) for f in fields]
    else:
        fields = pos + [f for f in fields if f["pk"] == "kw_only"]
    del order
    present = [draw(st.booleans()) for _ in fields]
    layout = draw(st.sampled_from(["dict", "dict", "dict", "list"]))
    # what a present field holds: a unique object, or one of the falsy singletons a careless "is it there?" test confuses
    # with absence
    pvals = [draw(st.sampled_from(["u", "u", "u", "None", "None", "0", "False", "empty_str", "empty_tuple"])) for _ in fields]
    # the mapping the fields arrive in: for some, ``data[key]`` of an ABSENT key answers (``__missing__``) or the mapping is not a
    # dict at all -- "absent" is what ``key in data`` says
    mapping = draw(st.sampled_from(["dict", "dict", "dict", "dict", "defaultdict", "counter", "missing_dict", "mappingproxy",
                                    "chainmap"]))
    return {"kind": kind, "fields": fields, "present": present, "layout": layout, "debug": draw(st.integers(0, 2)),
            "hooks": draw(st.booleans()), "pvals": pvals, "mapping": mapping}


class MissingDict(dict):
    def __missing__(self, key):
        return 0


def wrap_mapping(datum: dict, how: str):
    if how == "defaultdict":
        return collections.defaultdict(lambda: ("made-by-missing",), datum)
    if how == "counter":
        return collections.Counter(datum)
    if how == "missing_dict":
        return MissingDict(datum)
    if how == "mappingproxy":
        return types.MappingProxyType(datum)
    if how == "chainmap":
        return collections.ChainMap({}, datum)
    return datum


# ------------------------------------------------------------------------------------ model construction
_uid = itertools.count()


def build_model(case, log):  # noqa: C901, PLR0912, PLR0915
    kind = case["kind"]
    cname = f"C08M{next(_uid)}"
    ns: dict = {"dataclasses": dataclasses, "typing": typing, "Any": typing.Any, "LOG": log}
    defaults = {}
    lines = []
    for i, f in enumerate(case["fields"]):
        d = f["d"]
        if d is not None and d[0] == "v":
            defaults[f["n"]] = ns[f"_D{i}"] = DEFAULTS[d[1]]()
        elif d is not None and d[0] == "f":
            ns[f"_F{i}"] = FACTORIES[d[1]]
    hooks = case.get("hooks")
    if kind == "dataclass":
        lines += ["@dataclasses.dataclass", f"class {cname}:"]
        for i, f in enumerate(case["fields"]):
            opts = []
            d = f["d"]
            if d is not None and d[0] == "v":
                opts.append(f"default=_D{i}")
            elif d is not None:
                opts.append(f"default_factory=_F{i}")
            if f["pk"] == "kw_only":
                opts.append("kw_only=True")
            lines.append(f"    {f['n']}: Any = dataclasses.field({', '.join(opts)})" if opts else f"    {f['n']}: Any")
        if hooks:
            lines += ["    def __post_init__(self):", "        LOG.append(('post_init',))"]
    elif kind == "attrs":
        import attrs  # noqa: PLC0415
        ns["attrs"] = attrs
        lines += ["@attrs.define", f"class {cname}:"]
        for i, f in enumerate(case["fields"]):
            opts = []
            d = f["d"]
            if d is not None and d[0] == "v":
                opts.append(f"default=_D{i}")
            elif d is not None and d[0] == "f":
                opts.append(f"factory=_F{i}")
            elif d is not None:
                opts.append("default=attrs.Factory(lambda self: ('from_self', id(self) != 0), takes_self=True)")
            if f["pk"] == "kw_only":
                opts.append("kw_only=True")
            lines.append(f"    {f['n']}: Any = attrs.field({', '.join(opts)})")
        if hooks:
            lines += ["    def __attrs_post_init__(self):", "        LOG.append(('post_init',))"]
    elif kind == "namedtuple":
        lines += [f"class {cname}(typing.NamedTuple):"]
        for i, f in enumerate(case["fields"]):
            lines.append(f"    {f['n']}: Any" + (f" = _D{i}" if f["d"] else ""))
    elif kind == "pydantic":
        import pydantic  # noqa: PLC0415
        ns["pydantic"] = pydantic
        lines += [f"class {cname}(pydantic.BaseModel):", "    model_config = pydantic.ConfigDict(arbitrary_types_allowed=True)"]
        for i, f in enumerate(case["fields"]):
            d = f["d"]
            if d is None:
                lines.append(f"    {f['n']}: Any")
            elif d[0] == "v":
                lines.append(f"    {f['n']}: Any = _D{i}")
            else:
                lines.append(f"    {f['n']}: Any = pydantic.Field(default_factory=_F{i})")
        if hooks:
            lines += ["    @pydantic.model_validator(mode='after')", "    def _after(self):", "        LOG.append(('post_init',))",
                      "        return self"]
    else:  # plain class
        params = []
        emitted_slash = emitted_star = False
        fields = case["fields"]
        for i, f in enumerate(fields):
            if f["pk"] == "kw_only" and not emitted_star:
                if any(x["pk"] == "pos_only" for x in fields) and not emitted_slash:
                    params.append("/")
                    emitted_slash = True
                params.append("*")
                emitted_star = True
            if f["pk"] == "pos_or_kw" and not emitted_slash and any(x["pk"] == "pos_only" for x in fields):
                params.append("/")
                emitted_slash = True
            params.append(f"{f['n']}: Any" + (f" = _D{i}" if f["d"] else ""))
        if any(x["pk"] == "pos_only" for x in fields) and not emitted_slash:
            params.append("/")
        lines += [f"class {cname}:", f"    def __init__(self, {', '.join(params)}):"]
        for f in fields:
            lines.append(f"        self.{f['n']} = {f['n']}")
        if hooks:
            lines.append("        LOG.append(('post_init',))")
    src = "\n".join(lines) + "\n"
    exec(compile(src, f"<c08 {cname}>", "exec", dont_inherit=True), ns)  # noqa: S102
    cls = ns[cname]
    # wrap the constructor with a logging wrapper that keeps the signature
    if kind == "namedtuple":
        orig_new = cls.__new__

        def logging_new(klass, *a, **kw):
            log.append(("call", a, kw))
            return orig_new(klass, *a, **kw)
        logging_new.__signature__ = inspect.signature(orig_new)  # type: ignore[attr-defined]
        cls.__new__ = logging_new
    else:
        orig_init = cls.__init__

        def logging_init(self, *a, **kw):
            log.append(("call", a, kw))
            orig_init(self, *a, **kw)
        logging_init.__signature__ = inspect.signature(orig_init)  # type: ignore[attr-defined]
        logging_init.__wrapped__ = orig_init  # type: ignore[attr-defined]
        logging_init.__annotations__ = getattr(orig_init, "__annotations__", {})
        cls.__init__ = logging_init
    return cls, defaults, src


def param_name(f, kind):
    if kind == "attrs" and f["n"].startswith("_"):
        return f["n"].lstrip("_")
    return f["n"]


def attr_value(obj, f, kind):
    if kind == "pydantic":
        return getattr(obj, f["n"])
    return getattr(obj, f["n"])


def same_default(a, b) -> bool:
    """Type-exact equality (NaN equals NaN, -0.0 differs from 0.0)."""
    if type(a) is not type(b):
        return False
    if isinstance(a, float):
        return (a != a and b != b) or (a == b and math.copysign(1, a) == math.copysign(1, b))
    if isinstance(a, complex):
        return same_default(a.real, b.real) and same_default(a.imag, b.imag)
    if isinstance(a, Decimal):
        return a.as_tuple() == b.as_tuple()
    if isinstance(a, (tuple, list)):
        return len(a) == len(b) and all(same_default(x, y) for x, y in zip(a, b))
    if isinstance(a, (set, frozenset)):
        return len(a) == len(b) and all(any(same_default(x, y) for y in b) for x in a)
    if isinstance(a, dict):
        return len(a) == len(b) and all(k in b and same_default(v, b[k]) for k, v in a.items())
    if isinstance(a, TrueLike):
        return True
    if isinstance(a, (range, slice)):
        return a == b
    return a is b or a == b


# ------------------------------------------------------------------------------------ oracle
def check_case(ctx: runner.Ctx, case):  # noqa: C901, PLR0912, PLR0915
    kind, fields = case["kind"], case["fields"]
    if kind in ("namedtuple", "pydantic") and any(f["n"].startswith("_") for f in fields):
        ctx.count("skipped_private_name_not_expressible")
        return
    log: list = []
    try:
        cls, defaults, src = build_model(case, log)
    except Exception as ex:  # noqa: BLE001  (Python / the model library refuses the generated class)
        ctx.count(f"class_refused_by_python:{type(ex).__name__}")
        return
    optional = [f for f in fields if f["d"] is not None]
    # which fields are present in the input: required ones always; positional-only ones too (adaptix documents
    # positional-only parameters as always required)
    present = {}
    pvals = case.get("pvals") or ["u"] * len(fields)
    for f, p, pv in zip(fields, case["present"], pvals):
        if f["d"] is None or p or f["pk"] == "pos_only" or case["layout"] == "list":
            # identity is checked: a unique object, or a falsy singleton
            present[f["n"]] = {"None": None, "0": 0, "False": False, "empty_str": "", "empty_tuple": ()}.get(
                pv, ("value-of", f["n"], object()))
    if kind == "attrs" and any(f["n"].startswith("_") for f in fields):
        pass
    retort = Retort(recipe=[name_mapping(cls, as_list=True)] if case["layout"] == "list" else [],
                    debug_trail=DEBUG[case["debug"]])
    try:
        loader = retort.get_loader(cls)
    except ProviderNotFoundError as ex:
        if case["layout"] == "list" and optional:
            ctx.count("list_layout_with_optional_fields_refused_as_documented")
            return
        ctx.violation("loader_not_creatable", (kind, exc_site(ex)), case, f"model source:\n{src}\n{describe(ex.__cause__ or ex)}")
        return
    except Exception as ex:  # noqa: BLE001
        ctx.violation("loader_creation_crashed", (kind, type(ex).__name__, exc_site(ex)), case, f"model source:\n{src}\n{describe(ex)}")
        return
    if case["layout"] == "list":
        datum: typing.Any = [present[f["n"]] for f in fields]
    else:
        datum = {tspec.model_key(f["n"]) if not f["n"].startswith("_") else f["n"]: present[f["n"]]
                 for f in fields if f["n"] in present}
        if kind == "attrs":
            datum = {(f["n"].lstrip("_") if False else tspec.model_key(f["n"])): present[f["n"]] for f in fields if f["n"] in present}
        datum = wrap_mapping(datum, case.get("mapping", "dict"))
    absent = [f for f in fields if f["n"] not in present]
    lookalike = any(f["d"][0] == "v" and f["d"][1] not in ("'x'", "-1", "2**70", "bytes_a") for f in absent) or \
        any(f["d"][0] in ("f", "fs") for f in absent)
    skipped_then_present = any(fields[i]["n"] not in present and any(g["n"] in present for g in fields[i + 1:])
                               for i in range(len(fields)))
    ctx.case([case], bool(absent) and (lookalike or skipped_then_present),
             sample={"kind": kind, "fields": fields, "present": sorted(present), "layout": case["layout"], "debug": case["debug"]},
             labels=[f"kind:{kind}", f"layout:{case['layout']}", f"absent:{min(len(absent), 3)}",
                     *([f"mapping:{case.get('mapping', 'dict')}"] if case["layout"] != "list" else []),
                     *[f"present_value:{pv}" for f, pv in zip(fields, pvals) if f["n"] in present and f["d"] is not None],
                     *(["skipped_then_present"] if skipped_then_present else []),
                     *[f"pk:{f['pk']}" for f in fields], *[f"default:{f['d'][0]}" for f in fields if f["d"]]])
    head = f"kind={kind} layout={case['layout']} debug={case['debug']} fields={fields} present={sorted(present)}\n{src}"

    results = []
    for _ in range(2):
        log.clear()
        try:
            obj = loader(datum)
        except Exception as ex:  # noqa: BLE001
            ctx.violation("load_failed", (kind, type(ex).__name__, exc_site(ex)), case, f"{head}\n{describe(ex)}")
            return
        calls = [e for e in log if e[0] == "call"]
        posts = [e for e in log if e[0] == "post_init"]
        if len(calls) != 1:
            ctx.violation("constructor_call_count", (kind, str(len(calls))), case, f"{head}\ncalls={calls!r}")
            return
        if case.get("hooks") and kind != "namedtuple" and len(posts) != 1:
            ctx.violation("post_init_not_run", (kind, str(len(posts))), case, f"{head}\nlog={log!r}")
        _, args, kwargs = calls[0]
        sig = inspect.signature(cls)
        try:
            bound = sig.bind(*args, **kwargs)
        except TypeError as te:
            ctx.violation("call_does_not_bind", (kind,), case, f"{head}\nargs={args!r} kwargs={kwargs!r}: {te}")
            return
        for f in fields:
            pn = param_name(f, kind)
            if f["n"] in present:
                if pn not in bound.arguments or bound.arguments[pn] is not present[f["n"]]:
                    ctx.violation("present_value_bound_to_wrong_parameter",
                                  (kind, f["pk"], "after_skipped" if skipped_then_present else "plain",
                                   "+".join(sorted({x["d"][0] for x in absent}))), case,
                                  f"{head}\nparameter {pn} got {bound.arguments.get(pn, '<nothing>')!r}; args={args!r} kwargs={kwargs!r}")
            elif pn in bound.arguments:
                d = f["d"]
                passed = bound.arguments[pn]
                if d[0] == "v" and not same_default(passed, defaults[f["n"]]):
                    ctx.violation("absent_field_passed_lookalike_default", (kind, d[1]), case,
                                  f"{head}\nparameter {pn} of absent field was passed {passed!r} ({type(passed).__name__}); "
                                  f"declared default {defaults[f['n']]!r} ({type(defaults[f['n']]).__name__})")
        results.append(obj)
    # compare with direct construction from the present fields
    pos_args = [present[f["n"]] for f in fields if f["pk"] == "pos_only"]
    kw_args = {param_name(f, kind): present[f["n"]] for f in fields if f["pk"] != "pos_only" and f["n"] in present}
    log.clear()
    try:
        direct = cls(*pos_args, **kw_args)
    except Exception as ex:  # noqa: BLE001
        raise env.HarnessError(f"direct construction failed: {ex!r}\n{head}") from ex
    for f in fields:
        got = attr_value(results[0], f, kind)
        exp = attr_value(direct, f, kind)
        d = f["d"]
        if f["n"] in present:
            if got is not present[f["n"]]:
                ctx.violation("present_value_lost", (kind,), case, f"{head}\nfield {f['n']}: {got!r}")
            continue
        if d[0] == "v":
            if not same_default(got, exp):
                ctx.violation("absent_field_not_true_default", (kind, d[1]), case,
                              f"{head}\nfield {f['n']} holds {got!r} ({type(got).__name__}); the model itself produces "
                              f"{exp!r} ({type(exp).__name__})")
        elif d[0] == "f":
            got2 = attr_value(results[1], f, kind)
            if d[1] == "counter":
                ncounters = sum(1 for x in absent if x["d"] == ["f", "counter"])  # one shared counter, one call per field
                if not (type(got) is int and type(got2) is int and got2 == got + ncounters):
                    ctx.violation("factory_not_called_once_per_load", (kind,), case, f"{head}\ncounter values {got!r}, {got2!r}")
            else:
                if type(got) is not type(exp) or got != exp:
                    ctx.violation("absent_field_not_factory_result", (kind, d[1]), case, f"{head}\nfield {f['n']}: {got!r} vs {exp!r}")
                if isinstance(got, (list, dict, set, bytearray)) and (got is got2 or got is exp):
                    ctx.violation("factory_result_shared", (kind, d[1]), case, f"{head}\nfield {f['n']}: same object in two loads")
        elif d[0] == "fs":
            if got != ("from_self", True):
                ctx.violation("takes_self_factory_wrong", (kind,), case, f"{head}\nfield {f['n']}: {got!r}")


def explore(ctx: runner.Ctx):
    ctx.given(st_case(), lambda c: check_case(ctx, c), ctx.budget(15000, 300000))


RULE = ("cases = (model kind, fields with parameter kinds and defaults/factories from the look-alike pool, which optional "
        "fields are present, dict/list layout, debug mode, hooks). Non-trivial = >= 1 optional field absent and (its default "
        "is a look-alike / factory, or a present field follows a skipped one). Distinct by the whole case.")

if __name__ == "__main__":
    raise SystemExit(runner.main(
        PROP, explore=explore, check_case=check_case, strategy=st_case(), rule=RULE,
        assumptions=["positional-only parameters are always given in the input (adaptix treats them as required fields)",
                     "field types are Any, so loaded values are the input objects themselves (identity is checked)"],
    ))
