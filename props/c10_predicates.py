"""C10 -- Predicates (types, strings, P patterns and combinators) match as documented.

Everything is pure data (vkit/c10_helpers.py describes the forms): predicate *expressions* and location
*stacks* are nested lists from which the real adaptix objects are rebuilt, so every case replays.

Parts
  table   bounded universe swept exhaustively (sharded by expression index): every enumerated expression x every
          stack of the named stack set; real `create_loc_stack_checker(pred).check_loc_stack` vs the reference
          evaluator written from the tutorial's "Predicate system".
  law     the four documented identities and the boolean laws, compared as truth tables of the REAL checkers over
          all stacks of a stack set (no reference involved).
  pure    Hypothesis: deeper expressions aimed at deeper stacks (stack first, expression derived from it, then
          mutated stacks), larger type / string / location alphabets.
  e2e     Hypothesis: generated nested dataclass models; `loader(pred, marker)` / `dumper(...)` /
          `bound(p1, loader(p2, ...))` in a fresh Retort must call the marker for exactly the data whose real
          location stack (captured by a spy provider in a second retort) the reference matches.
  reuse   programs over SHARED pattern objects (use a prefix, extend it in several ways, use it again): every object
          must answer like the same expression built fresh and like the reference (exhaustive small sweep + Hypothesis).
  probe   a few fixed documented examples (tutorial P example, "fact 6", changelog statement about P[X].ANY).
  unicode non-ASCII field ids x regex grammar (table over stack set U, identities, name_mapping skip/only/omit_default/map):
          strings and compiled re.Pattern predicates in every position, decided by the same reference (`re.fullmatch` in the
          harness / equality for identifier strings); the sampled parts (pure, e2e, reuse) draw from the same ids and grammar.
"""
import itertools
import typing
from collections import Counter

from vkit import env, runner
from vkit.errors import describe, exc_site

env.import_adaptix()

from hypothesis import strategies as st  # noqa: E402

from adaptix import Chain, P, Retort, bound, dumper, loader  # noqa: E402
from vkit import c10_helpers as H  # noqa: E402, N812
from vkit.c10_helpers import MED, W0, compile_ref, lst, make_checker, show, show_stack, tup  # noqa: E402

PROP = "C10"


# ===================================================================================== small constructors
def Tn(ts):  # noqa: N802
    return ["T", ts]


def Sn(s):  # noqa: N802
    return ["S", s]


def I(atom):  # noqa: N802, E743
    return ["i", atom]


def CH(*elems):  # noqa: N802
    return ["P", None, list(elems)]


def PW(atom):  # noqa: N802
    return CH(I(atom))


ANY = ["ANY"]

# ===================================================================================== bounded universe
X_T = ["A", "B", "SubA", "Abs", "Impl", "Proto", "ProtoImpl", "int", "list", ["List", "int"], ["Opt", "A"]]
X_S = ["a", "a|b", ".*_b", "a."]
X_IDS = ["a", "b", "a_b", "ab"]
ATOMS = [Tn(t) for t in X_T] + [Sn(s) for s in X_S] + [ANY]

ALPHA = (
    [["TH", t] for t in X_T]
    + [["IF", "int", "a"], ["IF", "A", "b"], ["IF", "SubA", "a_b"], ["IF", ["List", "int"], "ab"]]
    + [["OF", "A", "a"], ["OF", "Impl", "b"], ["OF", "int", "a_b"], ["OF", ["Opt", "A"], "ab"]]
    + [["GP", "A", 0], ["GP", "int", 0], ["GP", "int", 1], ["GP", "ProtoImpl", 1], ["GP", "B", 0]]
)
RALPHA = [["TH", "A"], ["TH", "Impl"], ["IF", "int", "a"], ["IF", "A", "b"], ["OF", "A", "a"],
          ["OF", "Impl", "a_b"], ["GP", "A", 0], ["GP", "int", 1], ["TH", ["List", "int"]]]

TUPLES = [
    ["t", [Tn("A"), Tn("B")], False], ["t", [Tn("SubA"), Sn("a")], False], ["t", [Sn("a"), Sn("b")], False],
    ["t", [Tn("Abs"), Tn("Proto")], False], ["t", [Tn("int"), Tn(["List", "int"])], False],
    ["t", [Tn("A"), Tn("B")], True], ["t", [Sn("a|b"), Tn("int")], True], ["t", [Tn("A")], False],
]
GARGS = [["g", 0, Tn("A")], ["g", 0, Tn("int")], ["g", 1, Tn("int")], ["g", 1, Tn("Proto")], ["g", 0, ANY],
         ["g", 2, Tn("A")]]
E1 = [I(a) for a in ATOMS] + [["a", n] for n in X_IDS] + TUPLES + GARGS
E2 = [I(Tn("A")), I(Tn("SubA")), I(Tn("Abs")), I(Tn("Proto")), I(Tn("int")), I(Tn(["List", "int"])),
      ["a", "a"], ["a", "b"], I(Sn(".*_b")), I(Sn("a|b")), I(ANY), TUPLES[0], GARGS[0], GARGS[2]]
E3 = [I(Tn("A")), I(Tn("Abs")), ["a", "a"], I(Sn(".*_b")), I(ANY), ["t", [Tn("A"), Sn("b")], False], GARGS[0]]
E4 = [I(Tn("A")), ["a", "a"], I(ANY), GARGS[0]]

CHAINS2 = [CH(x, y) for x in E2 for y in E2]
CHAINS3 = [CH(x, y, z) for x in E3 for y in E3 for z in E3]
CHAINS4 = [CH(*c) for c in itertools.product(E4, repeat=4)]
BIN_POOL = ([PW(a) for a in ATOMS] + CHAINS2[::7]
            + [CH(I(Tn("A")), ["a", "a"]), CH(I(Tn("Abs")), I(Sn(".*_b")))])
EXT_POOL = [PW(Tn("A")), PW(Tn("Abs")), PW(Sn("a|b")), CH(I(Tn("A")), ["a", "b"]), CH(["a", "b"], I(ANY)),
            CH(I(ANY), GARGS[0])]
EXT_ELEMS = [["a", "a"], I(Tn("A")), I(Sn(".*_b")), GARGS[2], TUPLES[1]]
ADD_POOL = [CH(x) for x in (I(Tn("A")), I(Tn("Abs")), ["a", "a"], ["a", "b"], I(Sn("a|b")), I(ANY), TUPLES[0],
                            GARGS[0])] + CHAINS2[::49]
LIFT_POOL = [Tn("A"), Tn("Abs"), Tn(["Opt", "A"]), Sn("a"), Sn(".*_b"), Tn("int")]


def enum_exprs(tier):
    """The enumerated expression universe (deterministic order; sharded by index)."""
    for a in ATOMS:
        yield a                              # raw class / hint / string / P.ANY
        if a != ANY:
            yield ["lsc", a]
    for el in E1:
        yield CH(el)                         # P[x], P.x, P[x, y], P[(gen)], P.generic_arg
    yield from CHAINS2
    yield from CHAINS3
    if tier == "thorough":
        yield from CHAINS4
    for x in [CH(el) for el in E1] + CHAINS2 + CHAINS3:
        yield ["not", x]
    pool = BIN_POOL if tier == "thorough" else BIN_POOL[::2]
    for op in H.BINOPS:
        for x in pool:
            for y in pool:
                yield [op, x, y]
    for el in EXT_ELEMS:                     # combined patterns that are extended further
        for x in EXT_POOL:
            yield ["P", ["not", x], [el]]
            for y in EXT_POOL:
                for op in H.BINOPS:
                    yield ["P", [op, x, y], [el]]
    for x in ADD_POOL:
        for y in ADD_POOL:
            yield ["add", x, y]
    for op in H.BINOPS:                      # checkers and patterns mixed
        for x in LIFT_POOL:
            for y in LIFT_POOL:
                yield [op, ["lsc", x], PW(y)]
                yield [op, PW(x), ["lsc", y]]
                yield [op, ["lsc", x], ["lsc", y]]
    for x in LIFT_POOL:
        yield ["not", ["lsc", x]]
        yield CH(I(["lsc", CH(I(x), ["a", "a"])]), ["a", "b"])   # wide first element


_STACK_SETS = {}


def stack_set(name):
    """Named stack sets: D12 / D3 = all stacks of depth 1..2 / exactly 3 over the 24-location alphabet,
    R3 / R4 = all stacks of depth 3 / 4 over the reduced 9-location alphabet."""
    if name not in _STACK_SETS:
        if name == "D12":
            pure = [[x] for x in ALPHA] + [list(p) for p in itertools.product(ALPHA, repeat=2)]
        elif name == "D3":
            pure = [list(p) for p in itertools.product(ALPHA, repeat=3)]
        elif name == "R3":
            pure = [list(p) for p in itertools.product(RALPHA, repeat=3)]
        elif name == "R4":
            pure = [list(p) for p in itertools.product(RALPHA, repeat=4)]
        elif name == "U":
            pure = u_stacks()
        else:
            raise ValueError(name)
        _STACK_SETS[name] = (pure, [tup(s) for s in pure], [W0.real_stack(s) for s in pure])
    return _STACK_SETS[name]


SET_DEPTH = {"D12": 2, "D3": 3, "R3": 3, "R4": 4}


def tier_sets(tier):
    return ["D12", "R3"] if tier == "quick" else ["D12", "D3", "R3", "R4"]


# ===================================================================================== identities and laws
def NOT(x):  # noqa: N802
    return ["not", x]


def OR(x, y):  # noqa: N802
    return ["or", x, y]


def AND(x, y):  # noqa: N802
    return ["and", x, y]


def XOR(x, y):  # noqa: N802
    return ["xor", x, y]


NEVER = NOT(PW(ANY))
LAW_POOL = ([PW(a) for a in (Tn("A"), Tn("Abs"), Tn("Proto"), Tn(["Opt", "A"]), Sn("a"), Sn("a|b"), Sn(".*_b"), ANY)]
            + CHAINS2[3::25] + [CHAINS3[17], NOT(CHAINS2[6]), ["lsc", Tn("A")], ["lsc", Sn("a.")],
                                CH(I(Tn("A")), ["a", "b"]), CH(["a", "b"], GARGS[0])])
TRIPLE_POOL = [PW(Tn("A")), PW(Tn("Abs")), PW(Sn("a|b")), CH(I(Tn("A")), ["a", "b"]), CH(["a", "b"], I(ANY)),
               NOT(PW(Sn("a"))), ["lsc", Tn("int")]]
ID_CHAINS = [CH(x) for x in (I(Tn("A")), I(Tn("Abs")), ["a", "a"], ["a", "b"], I(Sn("a|b")), I(ANY), TUPLES[0],
                             GARGS[0])] + CHAINS2[5::33]


def enum_laws():  # noqa: C901, PLR0912
    """(name, lhs, rhs): both sides must have the same truth table over every stack."""
    # documented identity 1: P['name'] is the same as P.name
    for n in X_IDS:
        yield "id1_item_is_attr", CH(I(Sn(n))), CH(["a", n])
        yield "id1_item_is_attr", CH(I(Tn("A")), I(Sn(n))), CH(I(Tn("A")), ["a", n])
        yield "id1_item_is_attr", CH(I(Sn(n)), I(Tn("A"))), CH(["a", n], I(Tn("A")))
        yield "id1_item_is_attr", CH(["a", "b"], I(Sn(n)), GARGS[0]), CH(["a", "b"], ["a", n], GARGS[0])
    # documented identity 2: P[Foo] is the same as Foo predicate
    for a in ATOMS:
        if a != ANY:
            yield "id2_P_item_is_pred", PW(a), a
            yield "id2_P_item_is_pred", ["lsc", a], a
    # documented identity 3: P[Foo] + P.name is the same as P[Foo].name
    for x in ID_CHAINS:
        for y in ID_CHAINS:
            yield "id3_add_is_extend", ["add", x, y], ["P", None, x[2] + y[2]]
    for x in ID_CHAINS[:6]:
        for y in ID_CHAINS[:6]:
            for z in ID_CHAINS[:4]:
                yield "id3_add_assoc", ["add", ["add", x, y], z], ["add", x, ["add", y, z]]
    # documented identity 4: P[Foo, Bar] matches class Foo or class Bar
    for x in ATOMS:
        for y in ATOMS:
            yield "id4_tuple_is_or", CH(["t", [x, y], False]), OR(PW(x), PW(y))
    for x, y in zip(ATOMS, ATOMS[3:] + ATOMS[:3]):
        yield "id4_gen_is_tuple", CH(["t", [x, y], True]), CH(["t", [x, y], False])
        yield "id4_tuple3_is_or", CH(["t", [x, y, Tn("B")], False]), OR(OR(PW(x), PW(y)), PW(Tn("B")))
        for z in (I(Tn("A")), ["a", "b"]):
            yield "id4_tuple_in_chain", CH(z, ["t", [x, y], False]), OR(CH(z, I(x)), CH(z, I(y)))
    # boolean laws ("could be combined via |, &, ^ ... reversed using ~": pointwise operations)
    for x in LAW_POOL:
        yield "double_negation", NOT(NOT(x)), x
        yield "idempotent_or", OR(x, x), x
        yield "idempotent_and", AND(x, x), x
        yield "xor_self_is_never", XOR(x, x), NEVER
        yield "excluded_middle", OR(x, NOT(x)), PW(ANY)
        yield "contradiction", AND(x, NOT(x)), NEVER
        for y in LAW_POOL:
            yield "de_morgan_or", NOT(OR(x, y)), AND(NOT(x), NOT(y))
            yield "de_morgan_and", NOT(AND(x, y)), OR(NOT(x), NOT(y))
            yield "xor_definition", XOR(x, y), AND(OR(x, y), NOT(AND(x, y)))
            yield "commutative_or", OR(x, y), OR(y, x)
            yield "commutative_and", AND(x, y), AND(y, x)
            yield "commutative_xor", XOR(x, y), XOR(y, x)
    for x in TRIPLE_POOL:
        for y in TRIPLE_POOL:
            for z in TRIPLE_POOL:
                yield "distributive_and_or", AND(x, OR(y, z)), OR(AND(x, y), AND(x, z))
                yield "distributive_or_and", OR(x, AND(y, z)), AND(OR(x, y), OR(x, z))
                yield "associative_or", OR(OR(x, y), z), OR(x, OR(y, z))
                yield "associative_and", AND(AND(x, y), z), AND(x, AND(y, z))
                yield "associative_xor", XOR(XOR(x, y), z), XOR(x, XOR(y, z))
    # extension of a combined pattern distributes (consequence of identity 3 + pointwise combinators)
    pats = [x for x in EXT_POOL]
    for el in EXT_ELEMS:
        for x in pats:
            yield "extend_negated", ["P", NOT(x), [el]], AND(CH(I(ANY), el), NOT(["P", x, [el]]))
            for y in pats:
                yield "extend_distributes_or", ["P", OR(x, y), [el]], OR(["P", x, [el]], ["P", y, [el]])
                yield "extend_distributes_and", ["P", AND(x, y), [el]], AND(["P", x, [el]], ["P", y, [el]])
                yield "extend_distributes_xor", ["P", XOR(x, y), [el]], XOR(["P", x, [el]], ["P", y, [el]])


# ===================================================================================== sampled universe
S_TYPES = ["A", "B", "SubA", "Abs", "AbsSub", "Impl", "ImplSub", "Proto", "ProtoImpl", "ProtoSub", "ProtoSubSub", "int", "bool", "str",
           "list", "List", "dict", ["List", "int"], ["list", "int"], ["List", "A"], ["Opt", "A"], ["OptBar", "A"], ["Bar", "B", "A"],
           ["OptBar", "int"], ["Opt", "int"],
           ["Union", "NoneType", "A"], ["Union", "A", "B"], ["Union", "B", "A"], ["Dict", "str", "int"],
           ["List", ["List", "int"]]]
S_LOC_TYPES = [*S_TYPES, "NoneType"]
S_IDS = ["a", "b", "a_b", "ab", "aa", "A", "_a", "b_a_b", "a1",
         # legal python identifiers are not limited to ASCII (all NFKC-normalised, see vkit/c10_helpers.py: U_IDS)
         "клиент_id", "Клиент_id", "сумма", "имя2", "größe", "straße", "CAFÉ", "αβγ", "σας", "ΣΑΣ", "名前", "数_1",
         "\u0131", "x\u0302y", "a\u0661"]
S_STRS = ["a", "b", "a_b", "ab", "a|b", ".*_b", "a.", "(a|b)", "[ab]+", "a?b", ".*", "", "a.*", "_?a", "a|a_b",
          "A", "a1", r"a\d", ".", "..", "a{2}", "aa", "_a",
          "клиент_id", "сумма", "名前", "straße", r"\w+_id", r"[^\W\d]\w*", r"\w+", r"\w*\d", r"\D+", r"(?i)КЛИЕНТ_ID|a",
          r"(?i)σας|straße", r".*\bсумма\b", r"\b\w+\b", r"[^\W\d_]+", r"\W+", r"\w+(?<!_id)", r"[а-яё]+_id", r"(?i)[а-я]+_ID",
          r"[a-z_]+", r"(?i)[a-z]+", r"\w{2}", r"a\s?b", r"(?a)\w+", "a b", r".*[^\x00-\x7f].*"]
S_RES = [[r"\w+_id", ""], ["КЛИЕНТ_ID", "I"], [r"\w+", "A"], [r"[a-zß]+", "I"], [r"\w+\d", "I"], ["a b", "X"], ["a|A1", "I"],
         [r"\w*[^\W\d]", "IA"], ["σας", "I"], [r".\B.*", ""]]


class Pool(list):
    """A list of atoms with its own 'which atoms match this location' cache."""

    def __init__(self, items):
        super().__init__(items)
        self.cache = {}


S_ATOMS = Pool([tup(Tn(t)) for t in S_TYPES] + [tup(Sn(s)) for s in S_STRS] + [("R", p, f) for p, f in S_RES]
               + [("ANY",)])


def atoms_true(loc_t, pool):
    """Atoms of the pool the reference says match the location (used to AIM generated predicates)."""
    if loc_t not in pool.cache:
        pool.cache[loc_t] = [a for a in pool if H.ref_atom(a, loc_t) is True]
    return pool.cache[loc_t]


@st.composite
def st_loc(draw, types=tuple(map(tup, S_LOC_TYPES)), ids=tuple(S_IDS), kinds=("TH", "TH", "IF", "IF", "OF", "OF",
                                                                             "GP", "GP", "FL", "IFF")):
    k = draw(st.sampled_from(kinds))
    ts = lst(draw(st.sampled_from(types)))
    if k == "TH":
        return ["TH", ts]
    if k == "GP":
        return ["GP", ts, draw(st.integers(0, 2))]
    return [k, ts, draw(st.sampled_from(ids))]


def derived_atom(fid, code):
    """String (5 of 6) or compiled-pattern predicate derived from a field id; pure function of (fid, code)."""
    code, r = divmod(code, 6)
    if r:
        return ["S", H.derive_regex(fid, code)]
    code, f = divmod(code, 4)
    flags = ("", "I", "I", "IA")[f]
    return ["R", H.derive_regex(fid.swapcase() if "I" in flags else fid, code, inline_flags=False), flags]


@st.composite
def st_elem_for(draw, loc, pool):  # noqa: C901
    """One chain element (always one location wide), aimed at ``loc`` with probability ~0.85."""
    good = atoms_true(tup(loc), pool) if draw(st.integers(0, 19)) < 17 else []  # noqa: PLR2004
    atom = lst(draw(st.sampled_from(good or pool)))
    if loc[0] in ("IF", "OF", "FL") and draw(st.integers(0, 9)) < 3:  # noqa: PLR2004
        atom = derived_atom(loc[2], draw(st.integers(0, 2 ** 62)))   # a regex grown from this field id by the grammar
    form = draw(st.integers(0, 11))
    if form <= 4:  # noqa: PLR2004
        if atom[0] == "S" and H.attr_ok(atom[1]) and draw(st.booleans()):
            return ["a", atom[1]]
        return ["i", atom]
    if form <= 6:  # noqa: PLR2004
        others = [lst(x) for x in draw(st.lists(st.sampled_from(pool), max_size=2))]
        items = [*others, atom]
        items = draw(st.permutations(items))
        return ["t", list(items), draw(st.booleans())]
    if form <= 8:  # noqa: PLR2004
        pos = loc[2] if loc[0] == "GP" and draw(st.integers(0, 4)) else draw(st.integers(0, 2))
        return ["g", pos, atom]
    other = lst(draw(st.sampled_from(pool)))
    if form == 9:  # noqa: PLR2004
        return ["i", ["lsc", ["or", PW(other), PW(atom)]]]
    if form == 10:  # noqa: PLR2004
        return ["i", ["lsc", ["and", PW(atom), NOT(PW(other))]]]
    return ["i", ["lsc", ["xor", ["lsc", atom], ["lsc", other]]]]


@st.composite
def st_mutated(draw, stack, loc_st):
    """A neighbour of the stack: dropped / added / replaced / swapped location."""
    s = [list(x) for x in stack]
    how = draw(st.integers(0, 6))
    if how == 0 and len(s) > 1:
        return s[1:]
    if how == 1 and len(s) > 1:
        return s[:-1]
    if how == 2:  # noqa: PLR2004
        return [*s, draw(loc_st)]
    if how == 3:  # noqa: PLR2004
        return [draw(loc_st), *s]
    if how == 4 and len(s) > 1:  # noqa: PLR2004
        i = draw(st.integers(0, len(s) - 2))
        s[i], s[i + 1] = s[i + 1], s[i]
        return s
    if how == 5 and len(s) > 1:  # noqa: PLR2004
        i = draw(st.integers(0, len(s) - 1))
        return s[:i] + s[i + 1:]
    i = draw(st.integers(0, len(s) - 1))
    s[i] = draw(loc_st)
    return s


@st.composite
def st_pat_for(draw, stack, pool, loc_st, depth):  # noqa: C901
    """An expression that builds a LocStackPattern, aimed at ``stack``."""
    forms = ["chain"] * 4
    if depth > 0:
        forms += ["not", "or", "and", "xor", "xor"]
        if len(stack) >= 2:  # noqa: PLR2004
            forms += ["ext", "ext", "add"]
    form = draw(st.sampled_from(forms))
    if form == "chain":
        n = draw(st.integers(1, min(len(stack), 5)))
        tail = stack[len(stack) - n:]
        elems = [draw(st_elem_for(loc, pool)) for loc in tail]
        if depth > 0 and len(stack) > n and draw(st.integers(0, 9)) == 0:
            # wide first element: a checker made of a whole pattern used as P[checker]
            inner = draw(st_pat_for(stack[:len(stack) - n + 1], pool, loc_st, depth - 1))
            elems[0] = ["i", ["lsc", inner]]
        return ["P", None, elems]
    if form == "not":
        other = stack if draw(st.booleans()) else draw(st_mutated(stack, loc_st))
        return ["not", draw(st_pat_for(other, pool, loc_st, depth - 1))]
    if form in ("or", "and", "xor"):
        left = draw(st_pat_for(stack, pool, loc_st, depth - 1))
        other = stack if draw(st.integers(0, 2)) else draw(st_mutated(stack, loc_st))
        right = draw(st_operand_for(other, pool, loc_st, depth - 1))
        return [form, left, right] if draw(st.booleans()) else [form, right, left]
    k = draw(st.integers(1, min(len(stack) - 1, 3 if form == "add" else 2)))
    head, tail = stack[:len(stack) - k], stack[len(stack) - k:]
    elems = [draw(st_elem_for(loc, pool)) for loc in tail]
    base = draw(st_pat_for(head, pool, loc_st, depth - 1))
    if form == "ext":
        return ["P", base, elems]
    return ["add", base, ["P", None, elems]]


@st.composite
def st_operand_for(draw, stack, pool, loc_st, depth):
    """Operand of a combinator: a pattern (mostly) or a checker."""
    how = draw(st.integers(0, 9))
    if how <= 6:  # noqa: PLR2004
        return draw(st_pat_for(stack, pool, loc_st, max(depth, 0)))
    good = atoms_true(tup(stack[-1]), pool)
    atom = lst(draw(st.sampled_from(good or pool)))
    if how == 7:  # noqa: PLR2004
        return ["lsc", atom]
    if how == 8:  # noqa: PLR2004
        return ["not", ["lsc", atom]]
    return ["lsc", draw(st_pat_for(stack, pool, loc_st, 0))]


@st.composite
def st_expr_for(draw, stack, pool, loc_st, depth=2):
    how = draw(st.integers(0, 19))
    if how <= 14:  # noqa: PLR2004
        return draw(st_pat_for(stack, pool, loc_st, depth))
    if how <= 16:  # noqa: PLR2004
        good = atoms_true(tup(stack[-1]), pool)
        atom = lst(draw(st.sampled_from(good or pool)))
        return atom if atom[0] != "ANY" or draw(st.booleans()) else ["lsc", atom]
    return draw(st_operand_for(stack, pool, loc_st, depth))


@st.composite
def st_pure_case(draw):
    loc_st = st_loc()
    stack = draw(st.lists(loc_st, min_size=draw(st.sampled_from([1, 2, 2, 3])), max_size=6))
    if draw(st.integers(0, 9)) == 0:   # unaimed share: expression derived from an unrelated stack
        expr = draw(st_expr_for(draw(st.lists(loc_st, min_size=1, max_size=4)), S_ATOMS, loc_st,
                                draw(st.integers(0, 3))))
    else:
        expr = draw(st_expr_for(stack, S_ATOMS, loc_st, draw(st.integers(0, 3))))
    stacks = [stack] + [draw(st_mutated(stack, loc_st)) for _ in range(draw(st.integers(2, 7)))]
    if draw(st.booleans()):
        stacks.append(draw(st.lists(loc_st, min_size=1, max_size=6)))
    return {"kind": "pure", "expr": expr, "stacks": stacks}


# ----------------------------------------------------------------------------------- end-to-end strategies
E2E_IDS = ["a", "b", "a_b", "ab", "aa", "c", "b_a",
           "клиент_id", "Сумма", "имя2", "größe", "straße", "σας", "名前", "数_1", "x\u0302y"]
E2E_STRS = [*E2E_IDS, "a|b", ".*_b", "a.", "(a|b)", "[ab]+", ".*", "a.*", "b_?a?", "c|aa",
            r"\w+_id", r"[^\W\d]\w*", r"\w+", r"\w+\d", r"(?i)сумма|B", r"\b\w{3,}\b", r"[^\W\d_]+", r"\D+", r"\W+|a"]
E2E_CODES = (3, 2 ** 33 + 7777, 2 ** 47 + 123457, 987654321987)
E2E_ORDER = ["B", "A", "SubA", "Impl", "ProtoImpl", "Root"]


@st.composite
def st_field_ts(draw, avail):
    leaf_pool = ["int", "str"] + avail * 3
    leaf = draw(st.sampled_from(leaf_pool))
    shape = draw(st.integers(0, 11))
    if shape <= 4:  # noqa: PLR2004
        return leaf
    if shape == 5:  # noqa: PLR2004
        return ["List", leaf]
    if shape == 6:  # noqa: PLR2004
        return ["list", leaf]
    if shape == 7:  # noqa: PLR2004
        return [draw(st.sampled_from(["Opt", "OptBar"])), leaf]
    if shape == 8:  # noqa: PLR2004
        return ["Dict", "str", leaf]
    if shape == 9:  # noqa: PLR2004
        return ["Tuple", draw(st.sampled_from(leaf_pool)), leaf]
    if shape == 10:  # noqa: PLR2004
        return ["List", [draw(st.sampled_from(["Opt", "OptBar"])), leaf]]
    return ["Dict", "str", ["List", leaf]]


def sub_types(ts, out):
    key = tup(ts)
    if key not in out:
        out.append(key)
    if not isinstance(ts, str):
        for a in ts[1:]:
            sub_types(a, out)


@st.composite
def st_models(draw):
    models = {}
    for idx, role in enumerate(E2E_ORDER):
        avail = E2E_ORDER[:idx]
        taken = [f for f, _ in models["A"]] if role == "SubA" else []
        nf = draw(st.integers(2, 4)) if role == "Root" else draw(st.integers(1, 2))
        ids = draw(st.lists(st.sampled_from([i for i in E2E_IDS if i not in taken]), min_size=nf, max_size=nf,
                            unique=True))
        models[role] = [[fid, draw(st_field_ts(avail))] for fid in ids]
    return models


def e2e_atom_pool(models):
    types = []
    for role in E2E_ORDER:
        for _, ts in models[role]:
            sub_types(ts, types)
    for name in ("A", "B", "SubA", "Abs", "Impl", "Proto", "ProtoImpl", "Root", "int", "str", "list", "List", "dict"):
        if name not in types:
            types.append(name)
    atoms = [("T", t) for t in types] + [("S", s) for s in E2E_STRS] + [("ANY",)]
    n = 0
    for role in E2E_ORDER:      # regexes grown from the ids of this world's own fields (pure function of the models)
        for fid, _ in models[role]:
            n += 1
            for code in E2E_CODES[n % 2::2]:
                a = tup(derived_atom(fid, code * 6 + (n + code) % 6))
                if a not in atoms:
                    atoms.append(a)
    return Pool(atoms)


@st.composite
def st_e2e_case(draw):
    models = draw(st_models())
    mode = draw(st.sampled_from(["load", "load", "dump"]))
    predicted = H.predict_stacks(models, mode)
    if len(predicted) > 90:  # noqa: PLR2004  -- keep worlds small: shrink Root to its first two fields
        models["Root"] = models["Root"][:2]
        predicted = H.predict_stacks(models, mode)
    pool = e2e_atom_pool(models)
    loc_types = tuple(a[1] for a in pool if a[0] == "T")
    loc_st = st_loc(types=loc_types, ids=tuple(E2E_IDS), kinds=("TH", "IF" if mode == "load" else "OF", "GP"))
    deep = [s for s in predicted if len(s) >= 3] or predicted  # noqa: PLR2004
    via = draw(st.sampled_from(["loader", "loader", "loader", "bound"]))
    exprs = []
    for _ in range(draw(st.integers(2, 5))):
        target = draw(st.sampled_from(deep if draw(st.integers(0, 3)) else predicted))
        if via == "bound":
            exprs.append(["and", draw(st_pat_for(target, pool, loc_st, 1)),
                          draw(st_operand_for(target, pool, loc_st, 1))])
        else:
            exprs.append(draw(st_expr_for(target, pool, loc_st, draw(st.integers(0, 2)))))
    return {"kind": "e2e", "models": models, "mode": mode, "via": via,
            "chain": draw(st.sampled_from(["first", "first", "first", "none"])), "exprs": exprs}


def st_case():
    return st.one_of(st_pure_case(), st_e2e_case(), st.deferred(lambda: st_reuse_case()))


# ===================================================================================== oracle: direct checker
def expr_labels(expr):
    f = H.features(expr)
    out = [f"has:{x}" for x in sorted(f)]
    out.append(f"chain_len:{min(H.max_chain(expr), 5)}{'+' if H.max_chain(expr) > 5 else ''}")  # noqa: PLR2004
    return out


def expr_nontrivial(expr):
    return H.max_chain(expr) >= 2 or H.has_combinator(expr)  # noqa: PLR2004


def report_mismatch(ctx, expr, stack, ref_value, got):
    """Localise to the smallest disagreeing sub-expression; that pair is the recorded (replayable) case."""
    le, ls = H.localize(expr, stack, W0)
    lr = compile_ref(le)(tup(ls))
    if lr is None or (le is expr and ls is stack):
        le, ls, lr = expr, stack, ref_value
    sig = H.node_sig(le, ls)
    ctx.violation("checker_mismatch", (sig, "expected_match" if lr else "expected_nomatch"),
                  {"kind": "pure", "expr": le, "stacks": [ls]},
                  f"{show(le)}  on  {show_stack(ls)}: reference={lr} adaptix={not lr}"
                  f"   (found inside {show(expr)} on {show_stack(stack)}: reference={ref_value} adaptix={got})")


def build_checker(ctx, expr, case):
    try:
        return make_checker(expr, W0)
    except Exception as e:  # noqa: BLE001  -- every generated shape is valid per the docs: creation must work
        ctx.violation("create_crashed", (type(e).__name__, exc_site(e)), case, f"{show(expr)}: {describe(e)}")
        return None


def check_pure(ctx, case):
    expr = case["expr"]
    H.validate(expr)
    labels = expr_labels(expr)
    nt_expr = expr_nontrivial(expr)
    checker = build_checker(ctx, expr, {"kind": "pure", "expr": expr, "stacks": case["stacks"][:1]})
    if checker is None:
        return
    ref = compile_ref(expr)
    width = H.width(expr)
    for stack in case["stacks"]:
        if not stack:
            continue
        r = ref(tup(stack))
        try:
            got = bool(checker.check_loc_stack(MED, W0.real_stack(stack)))
        except Exception as e:  # noqa: BLE001
            ctx.violation("check_crashed", (type(e).__name__, exc_site(e)),
                          {"kind": "pure", "expr": expr, "stacks": [stack]},
                          f"{show(expr)} on {show_stack(stack)}: {describe(e)}")
            continue
        depth = len(stack)
        rel = "depth<width" if depth < width else "depth=width" if depth == width else "depth>width"
        last = stack[-1]
        fid_label = ([] if last[0] in ("TH", "GP") else ["last_field_id:ascii" if last[2].isascii() else "last_field_id:nonascii"])
        ctx.case([expr, stack], nt_expr and depth >= 2,  # noqa: PLR2004
                 sample={"expr": show(expr), "stack": show_stack(stack), "reference": r},
                 labels=["part:pure", f"ref:{r}", f"stack_depth:{min(depth, 6)}", rel, *fid_label, *labels])
        if r is None:
            ctx.count("unspecified_pairs")
            continue
        if got != r:
            report_mismatch(ctx, expr, stack, r, got)


def check_table(ctx, case):
    """One enumerated expression against every stack of a named stack set."""
    expr, name = case["expr"], case["set"]
    H.validate(expr)
    checker = build_checker(ctx, expr, {"kind": "pure", "expr": expr, "stacks": [[ALPHA[0]]]})
    if checker is None:
        return
    pure, tpure, real = stack_set(name)
    ref = compile_ref(expr)
    n_true = n_false = n_unspec = reported = 0
    check = checker.check_loc_stack
    for i, rs in enumerate(real):
        r = ref(tpure[i])
        try:
            got = bool(check(MED, rs))
        except Exception as e:  # noqa: BLE001
            ctx.violation("check_crashed", (type(e).__name__, exc_site(e)),
                          {"kind": "pure", "expr": expr, "stacks": [pure[i]]},
                          f"{show(expr)} on {show_stack(pure[i])}: {describe(e)}")
            continue
        if r is None:
            n_unspec += 1
        elif r:
            n_true += 1
        else:
            n_false += 1
        if r is not None and got != r and reported < 3:  # noqa: PLR2004
            reported += 1
            report_mismatch(ctx, expr, pure[i], r, got)
    n = len(real)
    ctx.case([expr, name], expr_nontrivial(expr),
             sample={"expr": show(expr), "stack_set": name, "stacks": n, "matching": n_true},
             labels=["part:table", f"set:{name}", "table:some_match" if n_true else "table:never_matches",
                     *expr_labels(expr)])
    ctx.evaluations += n - 1          # every (expression, stack) comparison is one oracle evaluation
    ctx.count("table_pairs", n)
    ctx.count("table_pairs_ref_match", n_true)
    ctx.count("table_pairs_ref_nomatch", n_false)
    ctx.count("table_pairs_unspecified", n_unspec)
    ctx.count("unspecified_pairs", n_unspec)


# ----------------------------------------------------------------------------------- laws (real vs real)
_TABLES = {}


def truth_table(ctx, expr, name):
    """Truth table (bit i = result on stack i of the set) of the REAL checker; memoised per process."""
    key = (tup(expr), name)
    if key in _TABLES:
        return _TABLES[key]
    checker = build_checker(ctx, expr, {"kind": "pure", "expr": expr, "stacks": [[ALPHA[0]]]})
    bits = None
    if checker is not None:
        _, _, real = stack_set(name)
        bits = 0
        check = checker.check_loc_stack
        try:
            for i, rs in enumerate(real):
                if check(MED, rs):
                    bits |= 1 << i
        except Exception as e:  # noqa: BLE001
            ctx.violation("check_crashed", (type(e).__name__, exc_site(e)),
                          {"kind": "pure", "expr": expr, "stacks": [stack_set(name)[0][i]]},
                          f"{show(expr)}: {describe(e)}")
            bits = None
    _TABLES[key] = bits
    return bits


def check_law(ctx, case):
    name, lhs, rhs, sname = case["law"], case["lhs"], case["rhs"], case["set"]
    H.validate(lhs)
    H.validate(rhs)
    a, b = truth_table(ctx, lhs, sname), truth_table(ctx, rhs, sname)
    if a is None or b is None:
        return
    n = len(stack_set(sname)[0])
    full = (1 << n) - 1
    constant = a in (0, full) and b in (0, full)
    ctx.case(["law", name, lhs, rhs, sname], not constant,
             sample={"law": name, "lhs": show(lhs), "rhs": show(rhs), "stack_set": sname,
                     "matching": bin(a).count("1")},
             labels=["part:law", f"law:{name}", "law:constant_table" if constant else "law:varying_table"])
    ctx.evaluations += n - 1
    ctx.count("law_pairs", n)
    if a != b:
        diff = a ^ b
        i = (diff & -diff).bit_length() - 1
        stack = stack_set(sname)[0][i]
        ctx.violation("law_broken", (name,), {"kind": "pair", "law": name, "lhs": lhs, "rhs": rhs, "stacks": [stack]},
                      f"{name}: {show(lhs)} -> {bool(a >> i & 1)} but {show(rhs)} -> {bool(b >> i & 1)} on "
                      f"{show_stack(stack)} ({bin(diff).count('1')} of {n} stacks differ)")


def check_pair(ctx, case):
    """Replay form of a broken law: both sides on explicit stacks."""
    lhs, rhs = case["lhs"], case["rhs"]
    H.validate(lhs)
    H.validate(rhs)
    cl, cr = build_checker(ctx, lhs, case), build_checker(ctx, rhs, case)
    if cl is None or cr is None:
        return
    for stack in case["stacks"]:
        rs = W0.real_stack(stack)
        try:
            a, b = bool(cl.check_loc_stack(MED, rs)), bool(cr.check_loc_stack(MED, rs))
        except Exception as e:  # noqa: BLE001
            ctx.violation("check_crashed", (type(e).__name__, exc_site(e)), {**case, "stacks": [stack]},
                          f"{show(lhs)} / {show(rhs)} on {show_stack(stack)}: {describe(e)}")
            continue
        ctx.case(["pair", lhs, rhs, stack], True, sample={"law": case["law"], "lhs": show(lhs), "rhs": show(rhs)},
                 labels=["part:law_replay"])
        if a != b:
            ctx.violation("law_broken", (case["law"],), {**case, "stacks": [stack]},
                          f"{case['law']}: {show(lhs)} -> {a} but {show(rhs)} -> {b} on {show_stack(stack)}")


# ===================================================================================== oracle: end to end
class _Sentinel:
    """What a replacing marker (chain=None) returns."""

    def __repr__(self):
        return "<marked>"


def _run_marked(world, pred_provider_factory, mode, subject, root):
    """Run load/dump with a marker provider; returns Counter(id(datum) -> marker calls)."""
    log = []

    def marker_first(data):
        log.append(id(data))
        return data

    def marker_replace(data):
        log.append(id(data))
        return _Sentinel()

    retort = Retort(recipe=[pred_provider_factory(marker_first, marker_replace)])
    if mode == "load":
        retort.load(subject, root)
    else:
        retort.dump(subject, root)
    return Counter(log)


def check_e2e(ctx, case):  # noqa: C901, PLR0912, PLR0915
    models, mode, via, chain = case["models"], case["mode"], case["via"], case["chain"]
    world = H.build_model_world(models)
    world.self_check()
    root = world.real("Root")
    keep = []
    data = H.make_data("Root", models, itertools.count(), keep)
    if mode == "load":
        subject = data
    else:
        subject = Retort().load(data, root)
    # the real location stacks, captured from an independent retort (harness failure if that breaks)
    spy = H.Spy()
    spy_retort = Retort(recipe=[spy])
    if mode == "load":
        spy_retort.load(subject, root)
    else:
        spy_retort.dump(subject, root)
    calls = spy.calls
    pure_stacks = [[world.pure_loc(loc) for loc in c[2]] for c in calls]
    tstacks = [tup(s) for s in pure_stacks]
    predicted = {tup(s) for s in H.predict_stacks(models, mode)}
    if not {_canon_stack(t) for t in tstacks} <= {_canon_stack(t) for t in predicted}:
        ctx.count("e2e_real_stack_outside_generator_model")  # informational: aiming model vs captured stacks
    max_depth = max(len(s) for s in pure_stacks)
    make = loader if mode == "load" else dumper
    ch = Chain.FIRST if chain == "first" else None

    for expr in case["exprs"]:
        H.validate(expr)
        if via == "bound" and expr[0] != "and":
            raise ValueError("via=bound needs an 'and' expression")
        ref = compile_ref(expr)
        verdicts = [ref(t) for t in tstacks]
        key = [models, mode, via, chain, expr]
        labels = ["part:e2e", f"e2e:{mode}", f"e2e:chain_{chain}", f"e2e:via_{via}", *expr_labels(expr)]
        if any(not fid.isascii() for fields in models.values() for fid, _ in fields):
            labels.append("e2e:model_with_nonascii_field_id")
        if any(v is None for v in verdicts):
            ctx.count("unspecified_e2e_predicates")
            ctx.case(key, False, labels=[*labels, "e2e:unspecified"])
            continue
        if chain == "first":
            hit = [i for i, v in enumerate(verdicts) if v]
        else:  # a replacing loader hides everything below it: only top-most matches are ever called
            hit = []
            matched = set()
            for i, v in enumerate(verdicts):
                parent = calls[i][1]
                below = parent is not None and (parent in matched)
                if below:
                    matched.add(i)   # descendants of a replaced position never run
                elif v:
                    matched.add(i)
                    hit.append(i)
        expected = Counter(calls[i][3] for i in hit)
        deep_hit = any(len(pure_stacks[i]) >= 3 for i in hit)  # noqa: PLR2004
        small = {**case, "exprs": [expr]}

        def factory(first, replace, expr=expr):
            func = first if chain == "first" else replace
            if via == "bound":
                return bound(H.build(expr[1], world), make(H.build(expr[2], world), func, ch))
            return make(H.build(expr, world), func, ch)

        try:
            got = _run_marked(world, factory, mode, subject, root)
        except Exception as e:  # noqa: BLE001  -- markers never fail and the spy run worked: adaptix broke
            ctx.violation("e2e_crashed", (mode, type(e).__name__, exc_site(e)), small,
                          f"{show(expr)}: {describe(e)}")
            continue
        ctx.case(key, expr_nontrivial(expr) and max_depth >= 2,  # noqa: PLR2004
                 sample={"expr": show(expr), "mode": mode, "via": via, "chain": chain, "positions": len(calls),
                         "marked": [show_stack(pure_stacks[i]) for i in hit[:4]]},
                 labels=[*labels, "e2e:marks=0" if not hit else "e2e:marks>=1",
                         *(["e2e:mark_at_depth>=3"] if deep_hit else [])])
        ctx.count("e2e_positions", len(calls))
        if got == expected:
            continue
        # ---- disagreement: describe it through the first datum whose count differs
        by_datum = {}
        for c in calls:
            by_datum.setdefault(c[3], []).append(c[0])
        # in call order, `None` last (it is one shared object for all positions holding it), so that a wrongly
        # replaced ancestor is reported rather than what it hides
        for datum in sorted(set(got) | set(expected),
                            key=lambda d: (d == id(None), min(by_datum.get(d, [-1])))):
            if got.get(datum, 0) == expected.get(datum, 0):
                continue
            group = [i for i, c in enumerate(calls) if c[3] == datum]
            where = " AND ".join(f"{show_stack(pure_stacks[i])} (reference={verdicts[i]})" for i in group)
            what = (f"{show(expr)} [{mode}, chain={chain}, via={via}]: marker calls={got.get(datum, 0)} expected="
                    f"{expected.get(datum, 0)} for the datum at {where}")
            culprit = None
            for i in group:  # does the checker itself (outside any retort) already disagree on the real stack?
                try:
                    direct = bool(make_checker_world(expr, world).check_loc_stack(MED, H.LocStack(*calls[i][2])))
                except Exception:  # noqa: BLE001  -- a crashing checker disagrees with every verdict
                    direct = None
                if direct != verdicts[i]:
                    culprit = i
                    break
            if culprit is not None:
                le, ls = H.localize(expr, pure_stacks[culprit], world)
                lr = compile_ref(le)(tup(ls))
                if lr is None:
                    le, ls, lr = expr, pure_stacks[culprit], verdicts[culprit]
                ctx.violation("checker_mismatch", (H.node_sig(le, ls), "expected_match" if lr else "expected_nomatch"),
                              {"kind": "pure", "expr": le, "stacks": [ls]},
                              f"{show(le)}  on  {show_stack(ls)}: reference={lr} adaptix={not lr}   (seen end to "
                              f"end: {what})")
            else:
                ctx.violation("e2e_marks_differ", (f"via_{via}", "retort_level"), small, what)
            break


def _canon_stack(tstack):
    return tuple((loc[0], H.canon(lst(loc[1])), *loc[2:]) for loc in tstack)


def make_checker_world(expr, world):
    return H.create_loc_stack_checker(H.build(expr, world))


def localize_world(expr, stack, world):
    return H.localize(expr, stack, world)


# ===================================================================================== fixed documented examples
def _exec_classes(src):
    ns = {}
    n = next(H._uid)  # noqa: SLF001
    exec(compile("from dataclasses import dataclass\nfrom typing import List, Optional\n"  # noqa: S102
                 + src.replace("@N", str(n)), f"<c10 probe {n}>", "exec", dont_inherit=True), ns)
    return ns, n


def check_probe(ctx, case):
    try:
        _check_probe(ctx, case)
    except Exception as e:  # noqa: BLE001  -- the probes only run documented examples on valid data
        if exc_site(e) == "?":
            raise          # not inside adaptix: a harness bug
        ctx.violation("probe_crashed", (case["name"], type(e).__name__, exc_site(e)), case, describe(e))


def _check_probe(ctx, case):
    name = case["name"]
    log = []

    def marker(data):
        log.append(data)
        return data

    if name in ("doc_fact6_direct", "doc_fact6_list"):
        # tutorial, "Some facts about P", 6 (as corrected by /repo commit 3918e02): "Every element describes exactly one
        # location of the path. P[Foo].name.age matches field age of the model stored directly in field name of model Foo;
        # P[Foo].name[Bar].age matches field age of model Bar that is a type argument of field name (name: list[Bar])"
        ann = "Bar@N" if name == "doc_fact6_direct" else "List[Bar@N]"
        ns, n = _exec_classes(f"@dataclass\nclass Bar@N:\n    age: int\n\n@dataclass\nclass Foo@N:\n"
                              f"    name: {ann}\n    age: int\n")
        foo, bar = ns[f"Foo{n}"], ns[f"Bar{n}"]
        pattern = P[foo].name.age if name == "doc_fact6_direct" else P[foo].name[bar].age
        retort = Retort(recipe=[loader(pattern, marker, Chain.FIRST)])
        inner = {"age": 7001}
        retort.load({"name": inner if name == "doc_fact6_direct" else [inner], "age": 7002}, foo)
        ctx.case(["probe", name], True, sample={"probe": name, "marker_calls": log}, labels=["part:probe", name])
        if log != [7001]:
            ctx.violation("doc_example_fact6", ("direct_nesting" if name == "doc_fact6_direct" else "generic_arg",),
                          case, f"loader({'P[Foo].name.age' if name == 'doc_fact6_direct' else 'P[Foo].name[Bar].age'}, marker) "
                                f"with Foo.name: {ann.replace('@N', '')}: "
                                f"marker received {log!r}, the documented reading requires [7001] (Bar.age only)")
    elif name == "doc_tutorial_p_example":
        # tutorial example predicate_system_p.py: P[Book].created_at applies inside Book only
        ns, n = _exec_classes("@dataclass\nclass Person@N:\n    id: int\n    created_at: int\n\n"
                              "@dataclass\nclass Book@N:\n    price: int\n    created_at: int\n\n"
                              "@dataclass\nclass Shop@N:\n    workers: List[Person@N]\n    books: List[Book@N]\n")
        retort = Retort(recipe=[loader(P[ns[f"Book{n}"]].created_at, marker, Chain.FIRST)])
        retort.load({"workers": [{"id": 1, "created_at": 8001}], "books": [{"price": 2, "created_at": 8002}]},
                    ns[f"Shop{n}"])
        ctx.case(["probe", name], True, sample={"probe": name, "marker_calls": log}, labels=["part:probe", name])
        if log != [8002]:  # noqa: PLR2004
            ctx.violation("doc_example_tutorial_p", (), case, f"marker received {log!r}, expected [8002]")
    elif name == "any_on_nonempty_pattern":
        # changelog 3.0.0b5: "Forbid use of constructs like P[SomeClass].ANY because it is misleading
        # (you have to use P.ANY directly)"
        ctx.case(["probe", name], True, sample={"probe": name}, labels=["part:probe", name])
        try:
            res = P[W0.real("A")].ANY
        except AttributeError:
            return
        got = getattr(res, "_stack", res)
        ctx.violation("any_on_nonempty_pattern", ("no_error",), case,
                      f"P[A].ANY did not raise; it silently built the pattern {got!r} "
                      f"(a field literally named 'ANY' inside A)")
    else:
        raise ValueError(name)


PROBES = ["doc_fact6_direct", "doc_fact6_list", "doc_tutorial_p_example", "any_on_nonempty_pattern"]


# ===================================================================================== pattern reuse (object history)
# A pattern is a value: what `p.v` / `p[int]` / `p + q` match must not depend on whether the OBJECT p (or q) has been
# used before (as predicate of a provider, operand of | & ^ ~, argument of create_loc_stack_checker) nor on what was
# derived from it earlier.  A case is a small program over a register file of pattern objects:
#   ["new", expr]  r[k] = fresh build         ["use", i, how]  use r[i] (builds its checker), result discarded
#   ["ext", i, elems]  r[k] = r[i] extended    ["add", i, j]    r[k] = r[i] + r[j]
#   ["check", i]  checker of r[i] vs reference and vs the same expression built fresh, on every stack
USE_HOWS = ("lsc", "or", "ror", "and", "xor", "not", "loader", "bound")


def _ident(data):
    return data


def _use(obj, how):
    other = P[W0.real("B")]
    if how == "lsc":
        H.create_loc_stack_checker(obj)
    elif how == "or":
        obj | other  # noqa: B018
    elif how == "ror":
        H.create_loc_stack_checker(W0.real("B")) | obj  # noqa: B018
    elif how == "and":
        obj & other  # noqa: B018
    elif how == "xor":
        other ^ obj  # noqa: B018
    elif how == "not":
        ~obj  # noqa: B018
    elif how == "loader":
        loader(obj, _ident)
    elif how == "bound":
        bound(obj, loader(W0.real("A"), _ident))
    else:
        raise ValueError(how)


def check_reuse(ctx, case):  # noqa: C901, PLR0912, PLR0915
    ops = case["ops"]
    if "set" in case:
        pure, tpure, real = stack_set(case["set"])
    else:
        pure = [s for s in case["stacks"] if s]
        tpure = [tup(s) for s in pure]
        real = [W0.real_stack(s) for s in pure]
    regs, exprs, used, origin, checked = [], [], [], [], []
    derived_any = False
    for n, op in enumerate(ops):
        kind = op[0]
        try:
            if kind == "new":
                H.validate(op[1])
                if H.kind(op[1]) != "pat":
                    raise ValueError("a register holds a pattern")
                new = (H.build(op[1], W0), op[1], ("new", False))
            elif kind == "use":
                _use(regs[op[1]], op[2])
                used[op[1]] = True
                continue
            elif kind == "ext":
                i = op[1]
                expr = ["P", exprs[i], op[2]]
                H.validate(expr)
                new = (H.extend(regs[i], op[2], W0), expr, ("ext", used[i] or origin[i][1]))
            elif kind == "add":
                i, j = op[1], op[2]
                expr = ["add", exprs[i], exprs[j]]
                H.validate(expr)
                new = (regs[i] + regs[j], expr, ("add", used[i] or used[j] or origin[i][1] or origin[j][1]))
            elif kind == "check":
                new = None
            else:
                raise ValueError(op)
        except ValueError:
            raise
        except Exception as e:  # noqa: BLE001  -- every program is made of documented operations
            ctx.violation("reuse_crashed", (kind, type(e).__name__, exc_site(e)),
                          {"kind": "reuse", "ops": ops[:n + 1], "stacks": pure[:1]}, describe(e))
            return
        if new is not None:
            regs.append(new[0])
            exprs.append(new[1])
            origin.append(new[2])
            used.append(False)
            checked.append(False)
            derived_any = derived_any or kind != "new"
            continue
        # ---- check register i
        i = op[1]
        expr = exprs[i]
        try:
            checker = H.create_loc_stack_checker(regs[i])
            fresh = make_checker(expr, W0)
        except Exception as e:  # noqa: BLE001
            ctx.violation("reuse_crashed", ("check", type(e).__name__, exc_site(e)),
                          {"kind": "reuse", "ops": ops[:n + 1], "stacks": pure[:1]}, describe(e))
            return
        ref = compile_ref(expr)
        how, src_used = origin[i]   # src_used: a (transitive) source object had been used before the derivation
        history = "source_used" if src_used else "recheck" if checked[i] else "extended_since" if used[i] else "clean"
        reported = n_match = 0
        for k, rs in enumerate(real):
            r = ref(tpure[k])
            try:
                got = bool(checker.check_loc_stack(MED, rs))
                clean = bool(fresh.check_loc_stack(MED, rs))
            except Exception as e:  # noqa: BLE001
                ctx.violation("check_crashed", (type(e).__name__, exc_site(e)),
                              {"kind": "reuse", "ops": ops[:n + 1], "stacks": [pure[k]]},
                              f"{show(expr)} on {show_stack(pure[k])}: {describe(e)}")
                break
            n_match += bool(r)
            if reported >= 2:  # noqa: PLR2004
                continue
            if r is not None and clean != r:
                reported += 1
                report_mismatch(ctx, expr, pure[k], r, clean)      # not a history effect: the ordinary oracle
            elif got != clean:
                reported += 1
                ctx.violation(
                    "reuse_mismatch", (how, history),
                    {"kind": "reuse", "ops": ops[:n + 1], "stacks": [pure[k]]},
                    f"{show(expr)} on {show_stack(pure[k])}: the pattern object obtained by this program answers "
                    f"{got}, the same expression built fresh answers {clean} (reference={r}); program: "
                    + "; ".join(_show_op(o, m) for m, o in enumerate(ops[:n + 1])))
        ctx.case(["reuse", ops[:n + 1], case.get("set") or pure], derived_any and H.max_chain(expr) >= 2,  # noqa: PLR2004
                 sample={"program": [_show_op(o, m) for m, o in enumerate(ops[:n + 1])], "checked": show(expr),
                         "stacks": len(real), "matching": n_match},
                 labels=["part:reuse", f"reuse:check_{how}", f"reuse:{history}",
                         "reuse:some_match" if n_match else "reuse:never_matches"])
        ctx.evaluations += max(len(real) - 1, 0)
        ctx.count("reuse_pairs", len(real))
        used[i] = True
        checked[i] = True


def _show_op(op, n):
    k = op[0]
    if k == "new":
        return f"new {show(op[1])}"
    if k == "use":
        return f"use r{op[1]} as {op[2]}"
    if k == "ext":
        return f"r{op[1]} extended by {show(['P', None, op[2]])[1:]}"
    if k == "add":
        return f"r{op[1]} + r{op[2]}"
    return f"check r{op[1]}"


REUSE_PREFIXES = (
    [CH(I(Tn("A"))), CH(["a", "a"]), CH(I(ANY))]
    + CHAINS2[::17] + [CH(I(Tn("A")), ["a", "b"]), CH(["a", "b"], I(ANY))]
    + CHAINS3[::57]
    + [OR(CH(I(Tn("A")), ["a", "b"]), PW(Sn("a|b"))), NOT(CH(I(Tn("A")), ["a", "a"])),
       ["P", OR(PW(Tn("A")), PW(Tn("Abs"))), [["a", "a"]]]]
)
REUSE_USES = ("none", "lsc", "or", "not", "loader", "check", "ror", "and", "xor", "bound")
REUSE_EXTS = [
    ["elems", [["a", "a"]]], ["elems", [I(Tn("A"))]], ["elems", [TUPLES[1]]], ["elems", [GARGS[0]]],
    ["elems", [["a", "b"], I(ANY)]], ["add_right", CH(["a", "a"])], ["add_right", CHAINS2[6]],
    ["add_left", CH(I(Tn("A")))],
]


def _derive(ops, n_regs, src, ext, use_operand):
    """Append the ops deriving a new register from register ``src``; returns (index of the new register, n_regs)."""
    if ext[0] == "elems":
        ops.append(["ext", src, ext[1]])
        return n_regs, n_regs + 1
    ops.append(["new", ext[1]])
    other = n_regs
    if use_operand:
        ops.append(["use", other, "lsc"])
    ops.append(["add", src, other] if ext[0] == "add_right" else ["add", other, src])
    return n_regs + 1, n_regs + 2


def enum_reuse(tier):
    """Prefix x (how the prefix object is used first) x (how it is extended): then the extension, the prefix again,
    a second extension of the same prefix and an extension of the extension are checked."""
    prefixes = REUSE_PREFIXES if tier == "thorough" else REUSE_PREFIXES[::2]
    uses = REUSE_USES if tier == "thorough" else REUSE_USES[:6]
    for prefix in prefixes:
        for how in uses:
            for k, ext in enumerate(REUSE_EXTS):
                if ext[0] == "add_left" and not H.plain1(prefix):
                    continue
                ops = [["new", prefix]]
                n = 1
                if how == "check":
                    ops.append(["check", 0])
                elif how != "none":
                    ops.append(["use", 0, how])
                r1, n = _derive(ops, n, 0, ext, use_operand=k % 2 == 1)
                ops += [["check", r1], ["check", 0]]
                ext2 = REUSE_EXTS[(k + 3) % 5]
                r2, n = _derive(ops, n, 0, ext2, use_operand=False)
                ops.append(["check", r2])
                ext3 = REUSE_EXTS[(k + 1) % 5]
                r3, n = _derive(ops, n, r1, ext3, use_operand=False)
                ops += [["check", r3], ["check", r1]]
                yield ops


@st.composite
def st_reuse_case(draw):  # noqa: C901
    loc_st = st_loc()
    stack = draw(st.lists(loc_st, min_size=2, max_size=6))
    k = draw(st.integers(1, min(3, len(stack) - 1)))
    head = stack[:len(stack) - k]
    prefix = draw(st_pat_for(head, S_ATOMS, loc_st, draw(st.integers(0, 2))))
    ops = [["new", prefix]]
    exprs, ends = [prefix], [len(head)]

    def aimed_elems(start, m):
        locs = [stack[q] if q < len(stack) else draw(loc_st) for q in range(start, start + m)]
        return [draw(st_elem_for(loc, S_ATOMS)) for loc in locs]

    for _ in range(draw(st.integers(3, 9))):
        what = draw(st.sampled_from(["use", "use", "ext", "ext", "ext", "add", "add_left", "check", "check"]))
        i = draw(st.integers(0, len(exprs) - 1))
        if what == "use":
            ops.append(["use", i, draw(st.sampled_from(USE_HOWS))])
        elif what == "check":
            ops.append(["check", i])
        elif what == "ext":
            m = draw(st.integers(1, 2))
            elems = aimed_elems(ends[i], m)
            ops.append(["ext", i, elems])
            exprs.append(["P", exprs[i], elems])
            ends.append(ends[i] + m)
        else:
            left = what == "add_left" and H.plain1(exprs[i]) and ends[i] >= 2  # noqa: PLR2004
            m = draw(st.integers(1, 2))
            start = max(ends[i] - H.width(exprs[i]) - m, 0) if left else ends[i]
            chain = CH(*aimed_elems(start, m))
            ops.append(["new", chain])
            j = len(exprs)
            exprs.append(chain)
            ends.append(start + m)
            if draw(st.booleans()):
                ops.append(["use", j, draw(st.sampled_from(USE_HOWS))])
            ops.append(["add", j, i] if left else ["add", i, j])
            exprs.append(["add", chain, exprs[i]] if left else ["add", exprs[i], chain])
            ends.append(ends[i] if left else ends[i] + m)
    for i in range(len(exprs)):       # every object is checked at the end, the prefix last
        ops.append(["check", len(exprs) - 1 - i])
    stacks = [stack[:e] for e in range(1, len(stack) + 1)]
    stacks += [draw(st_mutated(stack, loc_st)) for _ in range(draw(st.integers(1, 4)))]
    return {"kind": "reuse", "ops": ops, "stacks": stacks}


# ===================================================================================== non-ASCII field ids x regex grammar
# Rule 4: "If you pass a string, it will be interpreted as a regex and the provider will be applied to all fields with id
# matched by the regex ... Any field_id must be a valid python identifier, so if you pass the field_id directly, it will
# match an equal string."  Python identifiers are not limited to ASCII, and a regex is a `re` regex of a str pattern:
# \w \d \s \b and case-insensitivity follow the unicode tables.  The oracle is the reference evaluator
# (vkit/c10_helpers.py: ref_str / ref_re -> plain `re.fullmatch` in the harness; identifier strings: equality).
U_IDS = H.U_IDS
for _fid in [*E2E_IDS, *[x for x in S_IDS if not x.startswith("_")]]:
    if not H.is_safe_id(_fid):
        raise env.HarnessError(f"C10: {_fid!r} is not usable as a field id")

U_HAND = [
    r"\w+_id", r"[^\W\d]\w*_id", r"(?i)КЛИЕНТ_ID|user_id", r"\w+(?<!_id)", r".*\bсумма\b", r"\w+", r"\w*\d", r"\D+", r".*\d",
    r"[а-яё]+_id", r"[а-яА-Я_]+\w*", r"(?i)[а-я]+", r"(?i)straße|GRÖSSE", r"(?i)grösse", r"\w{1,3}", r"[^\W\d_]+", r"\S+", r"\W+",
    r".+\B.", r"\b\w+\b", r"\b.+", r".+\b", r"(?i:σας)", r"(?i)ΣΑΣ", r"(?i)ς+|a", r"[\u4e00-\u9fff]+", r"\w+_\d", "a b", "a #b", r"a\s?b",
    r"(?x) a b", r".*[^\x00-\x7f].*", r"[\x00-\x7f]+", r"(?a)\w+", r"(?a:\w+)_id", r"(?i)(?a:[a-z]+)_?id", r"(?i)i", r"(?i)\u0130d|k",
    r"(?i)[a-z]+", r"[a-z_]+\d?", r"\w\W\w", r"\w+?\d", r"(\w)\1?.*", r"id_\w+|\w+_id", r"^\w+$", r"(?!\d)\w+", r".*(?<=\d)", r"\d*\D+\d*",
    r"[\w]+", r"[^\w]*", r"[\d_]*[^\d_]+[\d_]*", r"(?s).+", r"(?m)^\w+$", r"(?i)CAFÉ|naïve", r"\w+[éÉ]", r"[^\W\d]+\d", r"", r".", r"..?",
]
U_RES_HAND = [[r"\w+_id", ""], ["КЛИЕНТ_ID", "I"], ["клиент_id", ""], [r"\w+", "A"], [r"[a-zß]+", "I"], [r"\w+\d", "I"], ["a b", "X"],
              [r"\w*[^\W\d]", "IA"], ["σας", "I"], ["straße", "I"], [r".\B.*", ""], [r"(?i)café", ""], [r"\D+", "S"], [r"^\w+$", "M"]]
U_CODES = (1, 5, 2 ** 20 + 77, 2 ** 33 + 7777, 2 ** 41 + 424243, 2 ** 47 + 123457, 2 ** 53 + 99, 987654321987654321,
           2 ** 58 + 31337, 2 ** 61 + 1)


def u_atoms(tier, seed):
    """String / compiled-pattern atoms of the side table: every id of the pool as a string, the hand-written regexes and,
    per field id, regexes derived by the grammar (codes rotate with VERIF_SEED)."""
    out, seen = [], set()

    def add(a):
        if tup(a) not in seen:
            seen.add(tup(a))
            out.append(a)
    for fid in U_IDS:
        add(Sn(fid))
    for x in U_HAND:
        add(Sn(x))
    for p, f in U_RES_HAND:
        add(["R", p, f])
    codes = U_CODES if tier == "thorough" else U_CODES[:6]
    for i, fid in enumerate(U_IDS):
        for j, code in enumerate(codes):
            c = code * 7919 + seed * 104729 * (j + 1) + i * 31
            add(derived_atom(fid, c * 6 + (1 + (i + j) % 5)))       # a string
            if j % 3 == 0:
                add(derived_atom(fid, c * 6))                        # a compiled pattern
    return out


def u_forms(x):
    """Every position a string / pattern predicate can take: bare, lifted, P['..'], P[Model]['..'], + and the combinators."""
    yield x
    yield ["lsc", x]
    yield PW(x)
    yield CH(I(Tn("A")), I(x))
    yield NOT(PW(x))
    yield NOT(NOT(PW(x)))
    yield OR(PW(x), PW(Sn("a")))
    yield AND(PW(x), PW(Tn("int")))
    yield XOR(PW(x), CH(I(Tn("A")), I(ANY)))
    yield ["add", PW(Tn("A")), PW(x)]
    yield CH(["t", [x, Tn("B")], False])
    yield CH(["t", [Sn("a"), x], True])
    yield ["P", OR(PW(Tn("A")), PW(Tn("B"))), [I(x)]]
    yield AND(["lsc", x], NOT(["lsc", Sn("id")]))
    if x[0] == "S" and H.attr_ok(x[1]):
        yield CH(["a", x[1]])
        yield CH(I(Tn("A")), ["a", x[1]])


def enum_uexprs(tier, seed):
    for x in u_atoms(tier, seed):
        yield from u_forms(x)


def u_stacks():
    out = []
    for fid in U_IDS:
        out += [[["IF", "int", fid]], [["OF", "int", fid]], [["TH", "A"], ["IF", "int", fid]], [["TH", "B"], ["OF", "int", fid]]]
    for fid in U_IDS[::5]:
        out += [[["FL", "int", fid]], [["TH", "B"], ["IF", "A", U_IDS[0]], ["IF", "str", fid]], [["IFF", "int", fid]]]
    out += [[["TH", "A"]], [["TH", "int"]], [["TH", "A"], ["GP", "int", 0]]]
    return out


def enum_ulaws(tier, seed):
    """Documented identities 1, 2, 4 over the non-ASCII universe (real checker vs real checker)."""
    for n in U_IDS:
        if H.attr_ok(n):
            yield "id1_item_is_attr", CH(I(Sn(n))), CH(["a", n])
            yield "id1_item_is_attr", CH(I(Tn("A")), I(Sn(n))), CH(I(Tn("A")), ["a", n])
    atoms = u_atoms(tier, seed)
    for i, x in enumerate(atoms):
        yield "id2_P_item_is_pred", PW(x), x
        if i % 4 == 0:
            y = atoms[(i * 7 + 3) % len(atoms)]
            yield "id4_tuple_is_or", CH(["t", [x, y], False]), OR(PW(x), PW(y))
            yield "double_negation", NOT(NOT(PW(x))), PW(x)


# ----------------------------------------------------------------------------------- the same atoms inside name_mapping
NMU_GROUP = 5
NMU_FORMS = 8
NMU_USAGES = [("skip", "dump"), ("only", "dump"), ("omit_default", "dump"), ("map_func", "dump"), ("skip", "load"),
              ("map_func", "load")]
_NMU = {}


def nmu_model(ids):
    key = tuple(ids)
    if key not in _NMU:
        cls = _dc.make_dataclass(f"NMU{len(_NMU)}", [(fid, int, _dc.field(default=0)) for fid in ids])
        _NMU[key] = (cls, H.World({"Root": cls}))
    return _NMU[key]


def nmu_expr(x, form):  # noqa: PLR0911
    if form == 0:
        return x
    if form == 1:
        return PW(x)
    if form == 2:  # noqa: PLR2004
        return CH(I(Tn("Root")), I(x))
    if form == 3:  # noqa: PLR2004
        return NOT(NOT(PW(x)))
    if form == 4:  # noqa: PLR2004
        return AND(PW(x), PW(Tn("int")))
    if form == 5:  # noqa: PLR2004
        return OR(PW(x), NEVER)
    if form == 6:  # noqa: PLR2004
        return ["add", PW(Tn("Root")), PW(x)]
    return NOT(PW(x))


def nmu_verdicts(expr, ids, direction):
    ref = compile_ref(expr)
    kind = "OF" if direction == "dump" else "IF"
    return {fid: ref(tup([["TH", "Root"], [kind, "int", fid]])) for fid in ids}


def enum_nmu(tier, seed):
    """Models of NMU_GROUP fields over the id pool x every atom of the side table that (by the reference) selects a proper,
    non-empty subset of the model's fields; usage / direction / predicate position rotate over the atoms."""
    ids_all = list(U_IDS)
    groups = [ids_all[i:i + NMU_GROUP] for i in range(0, len(ids_all), NMU_GROUP)]
    groups += [ids_all[i::len(groups)][:NMU_GROUP] for i in range(3)]      # a second cut: ids of different scripts together
    atoms = u_atoms(tier, seed)
    n = seed
    for ids in groups:
        for x in atoms:
            hit = [bool(H.ref_atom(tup(x), ("OF", "int", fid))) for fid in ids]
            if not any(hit) or all(hit):
                continue
            n += 1
            usage, direction = NMU_USAGES[n % len(NMU_USAGES)]
            form = (n // len(NMU_USAGES)) % NMU_FORMS
            if usage == "map_func" and form == NMU_FORMS - 1:
                form = 1
            yield {"kind": "nmu", "ids": ids, "expr": nmu_expr(x, form), "usage": usage, "dir": direction}


def check_nmu(ctx, case):
    from adaptix import name_mapping  # noqa: PLC0415
    ids, expr, usage, direction = case["ids"], case["expr"], case["usage"], case["dir"]
    H.validate(expr)
    for fid in ids:
        if not H.is_safe_id(fid):
            raise ValueError(f"{fid!r} is not usable as a field id")
    cls, world = nmu_model(ids)
    verdicts = nmu_verdicts(expr, ids, direction)
    labels = ["part:name_mapping_unicode", f"nm:{usage}", f"nmu:{direction}", *expr_labels(expr)]
    if any(v is None for v in verdicts.values()):
        ctx.count("unspecified_pairs")
        ctx.case(["nmu", ids, expr, usage, direction], False, labels=[*labels, "nmu:unspecified"])
        return
    matched = {fid for fid, v in verdicts.items() if v}
    pred = H.build(expr, world)
    kw = {"skip": {"skip": pred}, "only": {"only": pred}, "omit_default": {"omit_default": pred},
          "map_func": {"map": [(pred, lambda shape, fld: "K_" + fld.id)]}}[usage]
    if direction == "load":
        vals = {fid: 10 + i for i, fid in enumerate(ids)}
    else:                                    # every second field holds its default
        vals = {fid: (0 if i % 2 == 0 else 10 + i) for i, fid in enumerate(ids)}

    def present(fid):
        if usage == "skip":
            return fid not in matched
        if usage == "only":
            return fid in matched
        if usage == "omit_default":
            return not (fid in matched and vals[fid] == 0)
        return True

    data = {("K_" + fid if usage == "map_func" and fid in matched else fid): vals[fid] for fid in ids if present(fid)}
    obj = cls(**vals)
    ctx.case(["nmu", ids, expr, usage, direction], 0 < len(matched) < len(ids),
             sample={"ids": ids, "pred": show(expr), "usage": usage, "dir": direction, "selected": sorted(matched)},
             labels=[*labels, "nmu:selects_some" if 0 < len(matched) < len(ids) else "nmu:selects_all_or_none",
                     *(["nmu:nonascii_id_selected"] if any(not f.isascii() for f in matched) else [])])
    try:
        retort = Retort(recipe=[name_mapping(cls, **kw)])
        if direction == "dump":
            got, exp = retort.dump(obj), data
        else:
            got, exp = retort.load(data, cls), cls(**{fid: vals[fid] if present(fid) else 0 for fid in ids})
    except Exception as e:  # noqa: BLE001  -- documented parameters, valid data
        got, exp = describe(e), "<no exception>"
    if got != exp:
        # is it the checker itself (outside name_mapping) that disagrees with the reference on one of these fields?
        kind = "OF" if direction == "dump" else "IF"
        for fid in ids:
            stack = [["TH", "Root"], [kind, "int", fid]]
            try:
                direct = bool(H.create_loc_stack_checker(H.build(expr, world)).check_loc_stack(MED, world.real_stack(stack)))
            except Exception:  # noqa: BLE001
                direct = None
            if direct != verdicts[fid]:
                le, ls = H.localize(expr, stack, world)
                lr = compile_ref(le)(tup(ls))
                if lr is None:
                    le, ls, lr = expr, stack, verdicts[fid]
                ctx.violation("checker_mismatch", (H.node_sig(le, ls), "expected_match" if lr else "expected_nomatch"),
                              {"kind": "pure", "expr": le, "stacks": [ls]},
                              f"{show(le)}  on  {show_stack(ls)}: reference={lr} adaptix={not lr}   (seen in name_mapping("
                              f"{usage}={show(expr)}) on a model with the fields {ids}: {direction} gave {got!r}, expected {exp!r})")
                return
        ctx.violation("name_mapping_predicate", (usage, "unicode_ids", direction), case,
                      f"name_mapping(Model, {usage}={show(expr)}) on a model with the int fields {ids}: the predicate selects "
                      f"exactly {sorted(matched)}; {direction} gave {got!r}, expected {exp!r}")


# ===================================================================================== dispatch / exploration
# ===================================================================================== facade factories taking *preds
# ``enum_by_name(*preds)``, ``flag_by_member_names(*preds)``, ``enum_by_value(first_pred, *preds, tp=...)`` are documented
# as "predicates specifying where the provider should be used": the provider applies where ANY of them matches, i.e.
# ``f(p, q)`` acts as ``f(P[p] | P[q])`` (the identity P[A, B] == P[A] | P[B] seen through a provider), for every
# request of the retort, not only the first one.
FACADE_N = 3
FACADE_ATOMS = ([["cls", i] for i in range(FACADE_N)] + [["field", i] for i in range(FACADE_N)]
                + [["chain", i] for i in range(FACADE_N)] + [["pcls", i] for i in range(FACADE_N)]
                + [["pair", i, (i + 1) % FACADE_N] for i in range(FACADE_N)] + [["never"]])
FACADE_FACTORIES = ["enum_by_name", "flag_by_member_names", "enum_by_value"]
_FACADE_WORLDS = {}


def facade_world(factory):
    if factory not in _FACADE_WORLDS:
        import dataclasses  # noqa: PLC0415
        import enum  # noqa: PLC0415
        from decimal import Decimal  # noqa: PLC0415
        base = enum.Flag if factory == "flag_by_member_names" else enum.Enum
        one, two = (Decimal(1), Decimal(2)) if factory == "enum_by_value" else (1, 2)
        enums = [base(f"FE{i}_{factory}", {"A": one, "B": two}) for i in range(FACADE_N)]
        item = dataclasses.make_dataclass(f"FItem_{factory}", [(f"e{i}", enums[i]) for i in range(FACADE_N)])
        _FACADE_WORLDS[factory] = (enums, item)
    return _FACADE_WORLDS[factory]


def facade_pred(atom, enums, item):
    k = atom[0]
    if k == "cls":
        return enums[atom[1]]
    if k == "field":
        return f"e{atom[1]}"
    if k == "chain":
        return getattr(P[item], f"e{atom[1]}")
    if k == "pcls":
        return P[enums[atom[1]]]
    if k == "pair":
        return P[enums[atom[1]], enums[atom[2]]]
    return str   # no str location in the world


def facade_matched(preds):
    if not preds:
        return set(range(FACADE_N))   # no predicate: the provider is not bound at all
    out = set()
    for a in preds:
        out |= set(a[1:]) if a[0] != "never" else set()
    return out


def enum_facade(tier):
    for factory in FACADE_FACTORIES:
        for n in range(4):
            for j, preds in enumerate(itertools.product(FACADE_ATOMS, repeat=n)):
                if n == 3 and tier == "quick" and j % 9:
                    continue
                if factory == "enum_by_value" and n == 0:
                    continue   # its first predicate is mandatory
                yield {"kind": "facade", "factory": factory, "preds": [list(a) for a in preds]}


def check_facade(ctx, case):
    import adaptix  # noqa: PLC0415
    factory, preds = case["factory"], case["preds"]
    enums, item = facade_world(factory)
    real = [facade_pred(a, enums, item) for a in preds]
    if factory == "enum_by_value":
        from decimal import Decimal  # noqa: PLC0415
        provider = adaptix.enum_by_value(*real, tp=Decimal)   # Decimal loader/dumper of the value: Decimal(1) <-> "1"
        hit, miss = (lambda v: str(v)), (lambda v: Decimal(v))
    elif factory == "enum_by_name":
        provider = adaptix.enum_by_name(*real)
        hit, miss = (lambda v: "A"), (lambda v: v)
    else:
        provider = adaptix.flag_by_member_names(*real)
        hit, miss = (lambda v: ["A"]), (lambda v: v)
    expected_set = facade_matched(preds)
    obj = item(*[e.A for e in enums])
    expected = {f"e{i}": (hit(1) if i in expected_set else miss(1)) for i in range(FACADE_N)}
    retort = Retort(recipe=[provider])
    got = [retort.dump(obj), retort.dump(obj)]
    try:
        back = retort.load(expected, item)
    except Exception as e:  # noqa: BLE001
        back = describe(e)
    ctx.case(["facade", factory, preds], len(preds) >= 2 and 0 < len(expected_set) < FACADE_N,
             sample={"factory": factory, "preds": preds, "dumped": got[0]},
             labels=["part:facade", f"facade:{factory}", f"facade_preds:{len(preds)}"])
    if got[0] != expected or got[1] != expected or back != obj:
        ctx.violation("facade_multi_pred", (factory, min(len(preds), 2)), case,
                      f"{factory}({', '.join(map(str, preds))}) must apply exactly to the enums {sorted(expected_set)} "
                      f"(where any predicate matches): expected dump {expected}, got {got[0]} then {got[1]}; "
                      f"load of the expected form gave {back!r}")


# ===================================================================================== predicates inside name_mapping
# skip / only / omit_default / map pairs take the same predicates as loader() and dumper(); the stack they are checked against
# ends with [..., model location, field location], so chains that reach above the owning model must work there too.
import dataclasses as _dc  # noqa: E402

NMInner = _dc.make_dataclass("NMInner", [("x", int, _dc.field(default=0)), ("y", int, _dc.field(default=0))])
NMOuter = _dc.make_dataclass("NMOuter", [("a", NMInner), ("b", NMInner)])
_ALL_POS = [("a", "x"), ("a", "y"), ("b", "x"), ("b", "y")]
NM_PREDS = {
    "field_id": (lambda: "x", [("a", "x"), ("b", "x")]),
    "model_field": (lambda: P[NMInner].x, [("a", "x"), ("b", "x")]),
    "outer_a_x": (lambda: P[NMOuter].a.x, [("a", "x")]),
    "outer_b_x": (lambda: P[NMOuter].b.x, [("b", "x")]),
    "regex": (lambda: "x|y", list(_ALL_POS)),
    "or_of_chains": (lambda: P[NMOuter].a.x | P[NMOuter].b.y, [("a", "x"), ("b", "y")]),
    "and_not": (lambda: P[NMInner].x & ~P[NMOuter].a.x, [("b", "x")]),
    "outer_any_y": (lambda: P[NMOuter][NMInner].y, [("a", "y"), ("b", "y")]),
    "type_int_under_b": (lambda: P[NMOuter].b[int], [("b", "x"), ("b", "y")]),
}
NM_USAGES = ["skip", "only", "omit_default", "map_const", "map_func"]


def enum_nm():
    for pname in NM_PREDS:
        for usage in NM_USAGES:
            for direction in ("dump", "load"):
                if direction == "load" and usage in ("only", "omit_default"):
                    continue
                matched = NM_PREDS[pname][1]
                if usage.startswith("map") and any(sum(1 for o, _ in matched if o == owner) > 1 for owner in ("a", "b")):
                    continue   # two fields of one model mapped to one key: refused as a collision, rightly
                yield {"kind": "nm", "pred": pname, "usage": usage, "dir": direction}


def check_nm(ctx, case):
    from adaptix import name_mapping  # noqa: PLC0415
    make_pred, matched = NM_PREDS[case["pred"]]
    matched = set(matched)
    usage, direction = case["usage"], case["dir"]
    pred = make_pred()
    kw = {"skip": {"skip": pred}, "only": {"only": pred}, "omit_default": {"omit_default": pred},
          "map_const": {"map": [(pred, "K")]}, "map_func": {"map": [(pred, lambda shape, fld: "K")]}}[usage]
    retort = Retort(recipe=[name_mapping(NMInner, **kw)])
    vals = {("a", "x"): 0, ("a", "y"): 5, ("b", "x"): 0, ("b", "y"): 6}   # x holds its default, y does not
    if direction == "load":
        vals = {("a", "x"): 7, ("a", "y"): 5, ("b", "x"): 8, ("b", "y"): 6}

    def key_of(pos):
        return "K" if usage.startswith("map") and pos in matched else pos[1]

    def present(pos):
        if usage == "skip":
            return pos not in matched
        if usage == "only":
            return pos in matched
        if usage == "omit_default":
            return not (pos in matched and vals[pos] == 0)
        return True

    data: dict = {"a": {}, "b": {}}
    for pos in _ALL_POS:
        if present(pos):
            data[pos[0]][key_of(pos)] = vals[pos]
    obj = NMOuter(NMInner(vals[("a", "x")], vals[("a", "y")]), NMInner(vals[("b", "x")], vals[("b", "y")]))
    ctx.case(["nm", case["pred"], usage, direction], len(matched) not in (0, 4),
             sample={"pred": case["pred"], "usage": usage, "dir": direction, "expected_data": data},
             labels=["part:name_mapping_predicates", f"nm:{usage}", f"nm_pred:{case['pred']}"])
    try:
        if direction == "dump":
            got, exp = retort.dump(obj), data
        else:
            got = retort.load(data, NMOuter)
            exp = NMOuter(*[NMInner(*[vals[(o, f)] if present((o, f)) else 0 for f in ("x", "y")]) for o in ("a", "b")])
    except Exception as e:  # noqa: BLE001
        got, exp = describe(e), "<no exception>"
    if got != exp:
        ctx.violation("name_mapping_predicate", (usage, case["pred"], direction), case,
                      f"name_mapping(NMInner, {usage}=<{case['pred']}>): the predicate matches exactly {sorted(matched)}; "
                      f"{direction} gave {got!r}, expected {exp!r}")


# ===================================================================================== generic_arg positions inside converters
CVSrcPrice = _dc.make_dataclass("CVSrcPrice", [("amount", int), ("currency", str)])
CVDstPrice = _dc.make_dataclass("CVDstPrice", [("amount", int), ("currency", str)])
CVSrc = _dc.make_dataclass("CVSrc", [("by_key", typing.Dict[str, CVSrcPrice]), ("items", typing.List[CVSrcPrice])])
CVDst = _dc.make_dataclass("CVDst", [("by_key", typing.Dict[str, CVDstPrice]), ("items", typing.List[CVDstPrice])])
CV_PREDS = {
    # predicate -> (constant lands in the dict values, constant lands in the list items)
    "dict_value_pos1": (lambda: P[CVDst].by_key.generic_arg(1, CVDstPrice).currency, (True, False)),
    "dict_key_pos0_model": (lambda: P[CVDst].by_key.generic_arg(0, CVDstPrice).currency, (False, False)),
    "list_item_pos0": (lambda: P[CVDst].items.generic_arg(0, CVDstPrice).currency, (False, True)),
    "list_item_pos1": (lambda: P[CVDst].items.generic_arg(1, CVDstPrice).currency, (False, False)),
    "any_pos1": (lambda: P.generic_arg(1, CVDstPrice).currency, (True, False)),
    "model_field": (lambda: P[CVDstPrice].currency, (True, True)),
    "under_by_key": (lambda: P[CVDst].by_key[CVDstPrice].currency, (True, False)),
}


def check_convgp(ctx, case):
    from adaptix.conversion import get_converter, link_constant  # noqa: PLC0415
    make_pred, (in_dict, in_list) = CV_PREDS[case["pred"]]
    ctx.case(["convgp", case["pred"]], True, sample=case, labels=["part:converter_generic_arg", f"cv:{case['pred']}"])
    src = CVSrc({"k": CVSrcPrice(1, "EUR")}, [CVSrcPrice(2, "USD")])
    exp = CVDst({"k": CVDstPrice(1, "XXX" if in_dict else "EUR")}, [CVDstPrice(2, "XXX" if in_list else "USD")])
    try:
        got = get_converter(CVSrc, CVDst, recipe=[link_constant(make_pred(), value="XXX")])(src)
    except Exception as e:  # noqa: BLE001
        got = describe(e)
    if got != exp:
        ctx.violation("converter_generic_arg", (case["pred"],), case,
                      f"link_constant(<{case['pred']}>, value='XXX') in CVSrc -> CVDst: got {got!r}, expected {exp!r}")


def check_case(ctx: runner.Ctx, case):
    k = case["kind"]
    if k == "convgp":
        check_convgp(ctx, case)
    elif k == "nm":
        check_nm(ctx, case)
    elif k == "nmu":
        check_nmu(ctx, case)
    elif k == "facade":
        check_facade(ctx, case)
    elif k == "pure":
        check_pure(ctx, case)
    elif k == "table":
        check_table(ctx, case)
    elif k == "law":
        check_law(ctx, case)
    elif k == "pair":
        check_pair(ctx, case)
    elif k == "e2e":
        check_e2e(ctx, case)
    elif k == "probe":
        check_probe(ctx, case)
    elif k == "reuse":
        check_reuse(ctx, case)
    else:
        raise ValueError(k)


def explore(ctx: runner.Ctx):
    sets = tier_sets(ctx.tier)
    # 1. fixed documented examples (tiny share; the two open findings are probed here, never by the generators)
    if ctx.shard == 0:
        for name in PROBES:
            check_case(ctx, {"kind": "probe", "name": name})
        ctx.count("excluded_known", 0)
    # 2. exhaustive sweep of the bounded universe, sharded by expression index
    n_expr = 0
    for i, expr in enumerate(enum_exprs(ctx.tier)):
        n_expr += 1
        if i % ctx.nshards != ctx.shard:
            continue
        if ctx.out_of_time():
            break
        for name in sets:
            check_case(ctx, {"kind": "table", "expr": expr, "set": name})
    # 3. identities and boolean laws as truth tables of the real checkers
    n_laws = 0
    per_name = Counter()
    for i, (name, lhs, rhs) in enumerate(enum_laws()):
        n_laws += 1
        per_name[name] += 1
        if ctx.tier == "quick" and per_name[name] % 3 != ctx.base_seed % 3:
            continue   # quick: a third of the instances of every law, rotating with VERIF_SEED
        if (i // 2) % ctx.nshards != ctx.shard:
            continue
        if ctx.out_of_time():
            break
        for sname in sets:
            check_case(ctx, {"kind": "law", "law": name, "lhs": lhs, "rhs": rhs, "set": sname})
    # 2u. non-ASCII field ids x regex grammar: side table through the same reference oracle, identities, name_mapping
    n_u = 0
    for i, expr in enumerate(enum_uexprs(ctx.tier, ctx.base_seed)):
        n_u += 1
        if i % ctx.nshards != ctx.shard:
            continue
        if ctx.out_of_time():
            break
        check_case(ctx, {"kind": "table", "expr": expr, "set": "U"})
    n_ul = 0
    for i, (name, lhs, rhs) in enumerate(enum_ulaws(ctx.tier, ctx.base_seed)):
        n_ul += 1
        if i % ctx.nshards == ctx.shard:
            check_case(ctx, {"kind": "law", "law": name, "lhs": lhs, "rhs": rhs, "set": "U"})
    n_nmu = 0
    for i, ucase in enumerate(enum_nmu(ctx.tier, ctx.base_seed)):
        n_nmu += 1
        if i % ctx.nshards == ctx.shard and (ctx.tier == "thorough" or i // ctx.nshards % 2 == ctx.base_seed % 2):
            runner.guarded(ctx, lambda c: check_case(ctx, c), ucase)
    ctx.mark_exhaustive(
        f"non-ASCII field ids: {n_u} expressions = {len(u_atoms(ctx.tier, ctx.base_seed))} string / re.Pattern atoms (the "
        f"{len(U_IDS)} ids themselves, {len(U_HAND)} hand-written regexes, {len(U_RES_HAND)} compiled patterns with flags, and per id "
        f"regexes derived by the grammar of vkit/c10_helpers.py: derive_regex, codes rotating with VERIF_SEED) x 14-16 positions "
        f"(bare, lsc, P[..], P[A][..], P.attr, ~, ~~, |, &, ^, +, tuple, generator, extended combined pattern) x the "
        f"{len(stack_set('U')[0])} stacks of set U (every id as InputFieldLoc / OutputFieldLoc, alone and under a model, some "
        f"FieldLoc / depth 3, non-field locations); {n_ul} identity instances over the same set; {n_nmu} name_mapping cases "
        f"(skip / only / omit_default / map x dump / load x 8 predicate positions rotating over the atoms that select a proper "
        f"subset of a {NMU_GROUP}-field model)" + (" (quick: every second name_mapping case, rotating with the seed)"
                                                   if ctx.tier == "quick" else ""))
    # 3aa. predicates inside name_mapping (skip / only / omit_default / map pairs)
    n_nm = 0
    for i, ncase in enumerate(enum_nm()):
        n_nm += 1
        if i % ctx.nshards == ctx.shard:
            runner.guarded(ctx, lambda c: check_case(ctx, c), ncase)
    if ctx.shard == 0:
        for pname in CV_PREDS:
            runner.guarded(ctx, lambda c: check_case(ctx, c), {"kind": "convgp", "pred": pname})
    ctx.mark_exhaustive(f"name_mapping predicates: {n_nm} cases = {len(NM_PREDS)} predicates (field id, P[Model].field, chains "
                        f"reaching above the owning model, +, |, &~, regex, type under a field) x skip / only / omit_default / "
                        f"constant and function map pairs x dump / load on a model used at two fields of an outer model")
    # 3a. facade factories with several predicates (small exhaustive sweep)
    n_facade = 0
    for i, fcase in enumerate(enum_facade(ctx.tier)):
        n_facade += 1
        if i % ctx.nshards != ctx.shard:
            continue
        if ctx.out_of_time():
            break
        runner.guarded(ctx, lambda c: check_case(ctx, c), fcase)
    ctx.mark_exhaustive(
        f"facade factories: {n_facade} calls = {', '.join(FACADE_FACTORIES)} x every list of 0-3 predicates over "
        f"{len(FACADE_ATOMS)} atoms (class, field name, P chain, P[class], P[class, class], a never-matching class) in a "
        f"world of {FACADE_N} enum fields" + (" (quick: every 9th list of length 3)" if ctx.tier == "quick" else ""))
    # 3b. pattern reuse: programs over shared pattern objects (small exhaustive sweep)
    n_reuse = 0
    reuse_sets = ["R3"] if ctx.tier == "quick" else ["R3", "R4"]
    for i, ops in enumerate(enum_reuse(ctx.tier)):
        n_reuse += 1
        if i % ctx.nshards != ctx.shard:
            continue
        if ctx.out_of_time():
            break
        for sname in reuse_sets:
            check_case(ctx, {"kind": "reuse", "ops": ops, "set": sname})
    ctx.mark_exhaustive(
        f"pattern reuse: {n_reuse} programs = prefixes x first use of the prefix object x extension form (attribute, "
        f"item, tuple, generic_arg, two elements, + on either side); in each the extension, the prefix again, a second "
        f"extension of the prefix and an extension of the extension are compared with the reference and with a fresh "
        f"build on every stack of {', '.join(reuse_sets)}")
    sizes = ", ".join(f"{s}={len(stack_set(s)[0])}" for s in sets)
    ctx.mark_exhaustive(
        f"{n_expr} enumerated expressions (atoms, P-chains of length<={4 if ctx.tier == 'thorough' else 3}, their "
        f"negations, all |&^ pairs of a {len(BIN_POOL) if ctx.tier == 'thorough' else len(BIN_POOL[::2])}-pattern pool, extended combined patterns, + of chains, "
        f"checker/pattern mixes) x every stack of the sets {sizes} (D*: all stacks over a {len(ALPHA)}-location "
        f"alphabet of depth 1-2 / 3; R*: all stacks of depth 3 / 4 over a {len(RALPHA)}-location alphabet); "
        f"{n_laws} identity/law instances compared over the same sets"
        + (" (quick tier: every third law instance, rotating with the seed)" if ctx.tier == "quick" else ""))
    # 4. sampled deeper expressions / stacks, and end-to-end marking
    ctx.given(st_pure_case(), lambda case: check_case(ctx, case), ctx.budget(8000, 200000), seed_offset=1)
    ctx.given(st_e2e_case(), lambda case: check_case(ctx, case), ctx.budget(800, 20000), seed_offset=2)
    ctx.given(st_reuse_case(), lambda case: check_case(ctx, case), ctx.budget(2400, 48000), seed_offset=3)


RULE = ("table: one case per (enumerated expression, stack set), every (expression, stack) pair of the set is one "
        "oracle evaluation (counted in `evaluations` and in counters.table_pairs*); law: one case per (law instance, "
        "stack set), non-trivial when the compared truth tables are not constant; pure: Hypothesis draws a stack "
        "(depth<=6, 25 types x 9 field ids x 6 location kinds), derives an expression aimed at it (depth<=3 nesting, "
        "chains<=5) and evaluates it on the stack and 2-8 mutated neighbours, one case per (expression, stack); "
        "e2e: one case per (generated model world, mode, provider form, expression); reuse: one case per check op "
        "of a program over shared pattern objects (non-trivial when something was derived before and the checked "
        "chain has length>=2). Non-trivial = expression has a "
        "chain of length>=2 or a combinator (| & ^ ~ or tuple form) AND the stack (e2e: the deepest captured stack) "
        "has depth>=2. Distinct by the full pure-data case.")

if __name__ == "__main__":
    raise SystemExit(runner.main(
        PROP, explore=explore, check_case=check_case, strategy=st_case(), rule=RULE,
        assumptions=[
            "reference semantics: one chain element per location; a combined pattern that is extended constrains "
            "the path ending at its position (the reading under which `+`/extension distribute over | & ^)",
            "not asserted (counted as unspecified): bare generic class (list/List/dict) vs a parametrised "
            "location type, abstract class vs parametrised generic, string predicates on InputFuncFieldLoc; not "
            "generated: non-runtime / data protocols, Annotated/NewType/TypeVar hints, "
            "invalid regexes, `X + (combined multi-location pattern)`",
            "field ids are legal python identifiers, ASCII or not, always NFKC-normalised (python normalises the identifiers "
            "of a class body); a non-identifier string is a `re` regex of a str pattern (unicode character classes and case "
            "folding, as `re.fullmatch(pattern, field_id)` in the harness decides); a compiled re.Pattern predicate (public "
            "`Pred` type) matches by `pattern.fullmatch(field_id)` with the flags it was compiled with",
            "generic_arg(pos, pred) and P.ANY have no tutorial sentence; their meaning is taken from the name/"
            "signature, the repository's own unit test and the changelog",
            "e2e: the real location stacks are captured by a spy provider in a second retort over the same input "
            "objects; data sharing one object between two locations (Optional[X] field and its argument) are "
            "compared by marker-call count per object",
        ],
    ))
