"""C19 -- generated code treats names and keys purely as data.

Generated: flat models (dataclass via make_dataclass, TypedDict via the functional syntax, plain class with __init__)
whose field ids come from a dictionary of identifiers used inside the generated functions / builtins / keyword+underscore
/ non-ASCII identifiers, whose class names are arbitrary text, whose mapped keys are hostile strings (quotes,
backslashes, braces, dollars, newlines, U+2028, triple quotes, '#', and code fragments calling a canary in several
quoting contexts) and whose defaults have hostile reprs; for the model loader, the model dumper and the converter
generators (get_converter and impl_converter with hostile stub names, parameter names and parameter defaults).

Oracle: generation succeeds (no SyntaxError / NameError / KeyError ...); the result behaves per the layout reference
(every field read from / written to exactly its mapped key; a missing required key is reported under exactly that
key; converters copy every field); the canary is never hit; the impl_converter result keeps the stub's signature.
"""
from __future__ import annotations

import dataclasses
import enum
import functools
import inspect
import itertools
import keyword
import unicodedata
import typing

import vkit_canary
from vkit import env, runner
from vkit.errors import all_nodes, describe, exc_site

env.import_adaptix()

from hypothesis import strategies as st  # noqa: E402

from adaptix import DebugTrail, NameStyle, P, ProviderNotFoundError, Retort, name_mapping  # noqa: E402
from adaptix import load_error as le  # noqa: E402
from adaptix.conversion import get_converter, impl_converter, link, link_constant, link_function  # noqa: E402

PROP = "C19"
DEBUG = [DebugTrail.DISABLE, DebugTrail.FIRST, DebugTrail.ALL]

INTERNAL = ["data", "errors", "e", "value", "key", "getter", "sentinel", "constructor", "saturator", "extractor", "result",
            "extra", "packed_fields", "opt_fields", "has_unexpected_error", "known_keys", "required_keys", "model_identity",
            "coercer", "ctx", "append_trail", "extend_trail", "render_trail_as_note", "LoadError", "AggregateLoadError",
            "TypeLoadError", "CompatExceptionGroup", "CollectionsMapping", "CollectionsSequence", "self", "cls", "idx",
            "field", "fields", "loader", "dumper", "trail", "src", "dst", "source", "converter", "func", "stub_function",
            "_update_wrapper", "_stub_function", "_closure_signature", "closure", "namespace", "builder", "access_error"]
PREFIXED = ["a", "f_a", "r_a", "loader_a", "dumper_a", "dfl_a", "raw_a", "v_a", "field_a", "data_a", "extra_a", "a_1", "a_2",
            "data_1", "data_2", "extra_1", "has_not_found_error_1"]
BUILTINS = ["list", "dict", "len", "type", "id", "print", "str", "int", "tuple", "set", "iter", "getattr", "isinstance",
            "object", "Exception", "KeyError", "TypeError", "hash", "repr", "bool", "exec", "eval", "super", "vars"]
KW_UNDERSCORE = [k + "_" for k in ("from", "class", "None", "True", "import", "lambda", "def", "return", "is", "not", "in")]
ODD = ["_", "__", "_private", "x__y", "é", "名前", "ß", "Ω", "а", "x1", "X", "aA", "a_", "a__", "_a_"]
FIELD_IDS = INTERNAL + PREFIXED + BUILTINS + KW_UNDERSCORE + ODD
TD_ONLY_IDS = ["ﬁ", "ǆ", "ａ"]   # NFKC-sensitive: only legal as TypedDict keys (pure data), Python normalises attribute names
# Python keywords are identifiers for str.isidentifier() and legal TypedDict keys (functional syntax); no class body can
# declare them, so they exist for TypedDict only
TD_KEYWORD_IDS = ["class", "None", "True", "False", "pass", "lambda", "import", "def", "return", "from", "is", "not", "in", "if",
                  "global", "yield", "async", "await"]
# names of functions handed to link_function / of nested models: keywords, names of the generators' own variables, pairs that
# collide after the "g_" prefix used for captured globals, the outer closure's own name
LINK_FUNC_NAMES = ["pass", "class", "None", "lambda", "foo", "g_foo", "g_g_foo", "_closure_signature", "_closure_signature_1",
                   "constant_0", "func_0", "data", "ctx", "coercer", "a_src", "src", "", "1x", "a b", "é", "convert",
                   "__import__('vkit_canary').hit()", "{x}", "coerce_M_to_MDst", "M", "MDst", "type", "print"]

CANARY = [
    "__import__('vkit_canary').hit()", "{__import__('vkit_canary').hit()}", "' + __import__('vkit_canary').hit() + '",
    '" + __import__("vkit_canary").hit() + "', "\\' + __import__('vkit_canary').hit() + \\'",
    "'] or __import__('vkit_canary').hit() or data['", '"] or __import__("vkit_canary").hit() or data["',
    "''' + __import__('vkit_canary').hit() + '''", "\n__import__('vkit_canary').hit()\n", "');__import__('vkit_canary').hit();('",
    "{0.__class__}", "{data}", "{x!r}", "%(x)s", "${x}", "$x", "\\N{BULLET}", "\\x41", "\\", "\\\\", "\\'", '\\"',
]
HOSTILE_KEYS = CANARY + ["US$$", "$value", "${value}", "cost_in_$", "$", "$$", "${", "$key", "${key}", "$data", "%", "%%", "{value}","'", '"', "'''", '"""', "{", "}", "{}", "{0}", "}{", "#", "# comment", "\n", "\r\n", " ", " ",
                         "\x00", "\t", " ", "", "a b", "a.b", "a[0]", "0", "-1", "None", "True", "...", "Ellipsis", "data", "key",
                         "é", "日本", "\ud800", "a" * 200, ";", ":", ",", "()", "[]", "lambda: 0", "f'{1}'", "b'x'", "\\u0041"]
CLASS_NAMES = ["M", "My Class", "a'b", 'x"y', "[T]", "A²", "½", "class", "", "1abc", "\n", "a.b", "lambda: 0", "data", "coercer",
               "M[int]", "__import__('vkit_canary').hit()", "{__import__('vkit_canary').hit()}", "é", "a-b", "(x)", "#", "'''",
               "M\\", "None", "x y z", "ﬁ"]
FUNC_NAMES = ["convert", "coercer", "data", "src", "f'", "a b", "", "1x", "lambda", "__import__('vkit_canary').hit()",
              "stub_function", "_closure_signature", "constructor", "é", "{x}", "result", "M"]


CONV_NAMES = ["g_coercer", "g__closure_signature", "g__update_wrapper", "g_constructor", "g_data", "coercer", "data", "pass", "",
              "a b", "_closure_signature", "func_0", "constant_0", "é", "__import__('vkit_canary').hit()"]


class Color(enum.Enum):
    RED = "red"


class EvilRepr:
    def __repr__(self):
        return "__import__('vkit_canary').hit()"

    def __eq__(self, other):
        return isinstance(other, EvilRepr)

    def __hash__(self):
        return 1


PARAM_DEFAULTS = {"dict_enum_key": lambda: {Color.RED: 1}, "dict_evil_key": lambda: {EvilRepr(): 1},
                  "dict_tuple_key": lambda: {(1, Color.RED): (EvilRepr(),)}, "none": lambda: None, "int": lambda: 7, "str_quote": lambda: "a'b\"c\n", "enum": lambda: Color.RED,
                  "evil": EvilRepr, "list": lambda: [1], "obj": object, "nan": lambda: float("nan"), "type": lambda: int,
                  "tuple_evil": lambda: (EvilRepr(),)}

class EvilReprStrConst(str):
    def __repr__(self):
        return "__import__('vkit_canary').hit('constant repr evaluated') or 'forged'"


class EvilReprInt(int):
    def __repr__(self):
        return "__import__('vkit_canary').hit('constant repr evaluated') or 0"


class EvilReprBytes(bytes):
    def __repr__(self):
        return "__import__('vkit_canary').hit('constant repr evaluated') or b''"


class IntColor(enum.IntEnum):
    RED = 1


class StrColor(str, enum.Enum):
    RED = "red"


class Perm(enum.IntFlag):
    R = 1
    W = 2


# scalar constants given to link_constant(value=...): values with a literal form, their look-alikes of other classes
# (subclass instances, mixin enum members: repr is not a literal of the value), and values without any literal form
SCALAR_CONSTANTS = {
    "str_quotes": lambda: "a'b\"c\n\\", "str_braces": lambda: "{x}${y}%s", "bytes": lambda: b"\x00'\"", "none": lambda: None,
    "true": lambda: True, "int_huge": lambda: 10 ** 5000, "int_neg": lambda: -7, "float_nan": lambda: float("nan"),
    "float_inf": lambda: float("-inf"), "float_negzero": lambda: -0.0, "complex": lambda: complex(0.0, -1.5),
    "ellipsis": lambda: ..., "notimplemented": lambda: NotImplemented,
    "evil_str": lambda: EvilReprStrConst("payload"), "evil_int": lambda: EvilReprInt(5), "evil_bytes": lambda: EvilReprBytes(b"x"),
    "plain_sub_str": lambda: PlainSubStr("k"), "int_enum": lambda: IntColor.RED, "str_enum": lambda: StrColor.RED,
    "int_flag": lambda: Perm.R | Perm.W, "plain_enum": lambda: Color.RED,
    "tuple_mixed": lambda: (1, "a", IntColor.RED, EvilReprStrConst("t")), "frozenset_enum": lambda: frozenset({StrColor.RED}),
    "range": lambda: range(3), "type": lambda: dict, "bytearray": lambda: bytearray(b"ab"),
}


def same_constant(got, want) -> bool:
    """The destination holds the constant itself, or - for a value with a literal form - an equal value of exactly the same
    type (element-wise for tuples / frozensets); NaN equals NaN, -0.0 keeps its sign."""
    if got is want:
        return True
    if type(got) is not type(want):
        return False
    if isinstance(want, float):
        return repr(got) == repr(want)
    if isinstance(want, complex):
        return repr(got) == repr(want)
    if isinstance(want, tuple):
        return len(got) == len(want) and all(same_constant(a, b) for a, b in zip(got, want))
    if isinstance(want, frozenset):
        return len(got) == len(want) and all(any(same_constant(a, b) for b in want) for a in got)
    if type(want) in (str, bytes, int, bool, range, bytearray):   # adaptix may rebuild these from a literal expression
        return got == want
    return False


_uid = itertools.count()


@st.composite
def st_case(draw):
    gen = draw(st.sampled_from(["loader", "dumper", "converter", "impl_converter"]))
    # a plain class has no output shape (fields cannot be read back): only the loader generator applies to it
    kind = draw(st.sampled_from(["dataclass", "typeddict", "plain", "attrs"])) if gen == "loader" else \
        draw(st.sampled_from(["dataclass", "typeddict", "attrs"])) if gen == "dumper" else \
        draw(st.sampled_from(["dataclass", "typeddict"]))
    n = draw(st.integers(1, 5))
    # NFKC-sensitive TypedDict keys hit an open known finding (see known_findings.json): excluded by construction for
    # most of the budget, still probed with a small share so that the KNOWN-FINDING line stays evidence-backed
    probe_known = kind == "typeddict" and draw(st.integers(0, 39)) == 0
    pool = FIELD_IDS + (TD_ONLY_IDS * 8 if probe_known else []) + (TD_KEYWORD_IDS * 2 if kind == "typeddict" else [])
    ids = draw(st.lists(st.one_of(st.sampled_from(pool), st.sampled_from(INTERNAL + PREFIXED)), min_size=n, max_size=n, unique=True))
    fields = []
    for fid in ids:
        f = {"id": fid, "opt": draw(st.integers(0, 3)) == 0}
        if f["opt"]:
            f["default"] = draw(st.sampled_from(sorted(PARAM_DEFAULTS)))
            if kind == "attrs" and draw(st.integers(0, 2)) == 0:
                # the one kind of default a loader cannot apply itself: the field travels to the constructor in a dict of keyword
                # arguments, keyed by the PARAMETER name -- which attrs derives from the field id (leading underscores stripped)
                f["default"] = "takes_self"
        r = draw(st.integers(0, 5))
        if r <= 2:
            f["key"] = draw(st.one_of(st.sampled_from(HOSTILE_KEYS), st.text(max_size=6)))
        elif r == 3:
            f["path"] = [draw(st.sampled_from(HOSTILE_KEYS)), draw(st.one_of(st.sampled_from(HOSTILE_KEYS), st.text(max_size=4)))]
        fields.append(f)
    case = {"gen": gen, "kind": kind, "fields": fields, "cls_name": draw(st.sampled_from(CLASS_NAMES)),
            "omit_default": draw(st.booleans()),
            "key_cls": draw(st.sampled_from([None, None, None, "str_enum", "evil_repr", "sub_repr"])),
            "debug": draw(st.integers(0, 2)), "style": draw(st.sampled_from([None, None, "CAMEL", "UPPER_KEBAB"]))}
    if gen == "converter":
        # extra destination fields filled by link_function functions with hostile names, and a nested pair of models named
        # like the outer pair
        case["link_funcs"] = draw(st.lists(st.sampled_from(LINK_FUNC_NAMES), max_size=3)) if draw(st.booleans()) else []
        # how each extra destination field is filled: a named function, a callable without __name__ (gets a numbered generated
        # name), a constant without literal form (numbered name too), a dict constant with non-primitive keys
        case["link_kinds"] = [draw(st.sampled_from(["named", "named", "partial", "constant_obj", "constant_dict",
                                                    *[f"scalar:{k}" for k in sorted(SCALAR_CONSTANTS)]]))
                              for _ in case["link_funcs"]]
        case["nested_same_name"] = draw(st.integers(0, 3)) == 0
        case["conv_name"] = draw(st.sampled_from([None, None, *CONV_NAMES]))
    if gen == "impl_converter":
        case["func_name"] = draw(st.sampled_from(FUNC_NAMES))
        np = draw(st.integers(0, 3))
        pn = draw(st.lists(st.sampled_from(INTERNAL + PREFIXED + BUILTINS + ODD), min_size=np, max_size=np, unique=True))
        case["params"] = [{"n": x, "kw": draw(st.booleans()), "default": draw(st.sampled_from([None, *sorted(PARAM_DEFAULTS)]))}
                          for x in pn if x not in ids]
    return case


def tspec_canon_eq(a, b):
    """A dict constant may be rebuilt from its literal form: equal content with identical non-literal parts."""
    return type(a) is type(b) and len(a) == len(b) and all(any(k is k2 or (type(k) is type(k2) and k == k2) for k2 in b) for k in a) \
        and all(a[k] is b[k] or a[k] == b[k] for k in a if k in b)


def _identity(value):
    return value


def _returning(value):
    def fn(src_model):
        return value
    return fn


def valid_field_id(fid, kind):
    if not fid.isidentifier() or (keyword.iskeyword(fid) and kind != "typeddict"):
        return False
    if fid.startswith("__") and kind != "typeddict":
        return False  # name mangling inside class bodies: not a "legal field name" for attribute models
    return True


class EvilReprStr(str):
    def __repr__(self):
        return "__import__('vkit_canary').hit('key repr evaluated')"


class PlainSubStr(str):
    def __repr__(self):
        return f"PlainSubStr({str.__repr__(self)})"


_key_enums: dict = {}


def _key_wrapper(how):
    if how == "evil_repr":
        return EvilReprStr
    if how == "sub_repr":
        return PlainSubStr

    def as_member(k):
        # one single-member enum per key text (member values are the keys themselves)
        if k not in _key_enums:
            import enum  # noqa: PLC0415
            _key_enums[k] = enum.Enum(f"KeyEnum{len(_key_enums)}", {"MEMBER": k}, type=str)
        return _key_enums[k].MEMBER
    return as_member


def build_model(case, suffix="", extra=()):
    """``extra``: additional required fields ``(id, annotation)`` (harness-chosen safe ids)."""
    kind = case["kind"]
    name = f"C19M{next(_uid)}{suffix}"
    fields = case["fields"]
    if kind == "dataclass":
        spec = [(fid, ann) for fid, ann in extra]
        for f in sorted(fields, key=lambda f: f["opt"]):
            if f["opt"]:
                spec.append((f["id"], typing.Any, dataclasses.field(default=PARAM_DEFAULTS[f["default"]]()
                                                                    if f["default"] != "list" else None)))
            else:
                spec.append((f["id"], typing.Any))
        cls = dataclasses.make_dataclass(name, spec)
    elif kind == "attrs":
        import attr  # noqa: PLC0415
        attribs = {fid: attr.ib(type=ann) for fid, ann in extra}
        for f in sorted(fields, key=lambda f: f["opt"]):
            if not f["opt"]:
                attribs[f["id"]] = attr.ib(type=typing.Any)
            elif f["default"] == "takes_self":
                attribs[f["id"]] = attr.ib(type=typing.Any, default=attr.Factory(lambda self: ("made from", type(self).__name__), takes_self=True))
            else:
                attribs[f["id"]] = attr.ib(type=typing.Any, default=PARAM_DEFAULTS[f["default"]]() if f["default"] != "list" else None)
        cls = attr.make_class(name, attribs)
    elif kind == "typeddict":
        cls = typing.TypedDict(name, {**{f["id"]: (typing.NotRequired[typing.Any] if f["opt"] else typing.Any) for f in fields},  # type: ignore[misc]
                                      **dict(extra)})
    else:
        params = []
        body = []
        ns = {"Any": typing.Any}
        for i, f in enumerate(sorted(fields, key=lambda f: f["opt"])):
            if f["opt"]:
                ns[f"_D{i}"] = PARAM_DEFAULTS[f["default"]]()
                params.append(f"{f['id']}: Any = _D{i}")
            else:
                params.append(f"{f['id']}: Any")
            body.append(f"        setattr(self_obj, {f['id']!r}, {f['id']})")
        src = f"class {name}:\n    def __init__(self_obj, {', '.join(params)}):\n" + "\n".join(body) + "\n"
        exec(compile(src, "<c19 plain>", "exec", dont_inherit=True), ns)  # noqa: S102
        cls = ns[name]
    try:
        cls.__name__ = case["cls_name"]
        cls.__qualname__ = case["cls_name"]
    except (TypeError, ValueError):
        pass
    return cls


def gen_key(f, case):
    fid = f["id"]
    k = fid
    if k.endswith("_") and not k.endswith("__"):
        k = k[:-1]
    return k


def key_path(f, case):
    if "key" in f:
        return (f["key"],)
    if "path" in f:
        return tuple(f["path"])
    return (gen_key(f, case),)


def layout_ok(case) -> bool:
    paths = [key_path(f, case) for f in case["fields"]]
    if len(set(paths)) != len(paths):
        return False
    for a in paths:
        for b in paths:
            if a is not b and len(a) < len(b) and b[:len(a)] == a:
                return False
    return True


def check_case(ctx: runner.Ctx, case):  # noqa: C901, PLR0912, PLR0915
    kind, gen, fields = case["kind"], case["gen"], case["fields"]
    if not all(valid_field_id(f["id"], kind) for f in fields):
        ctx.count("skipped_not_a_legal_field_id")
        return
    if kind == "plain" and any(f["id"] == "self_obj" for f in fields):
        return
    if case.get("style"):
        case = {**case, "style": None}  # name_style requires snake-case ids (documented); hostile ids are not
    if not layout_ok(case):
        ctx.count("skipped_colliding_user_keys")
        return
    try:
        cls = build_model(case)
    except Exception as ex:  # noqa: BLE001
        ctx.count(f"class_refused_by_python:{type(ex).__name__}")
        return
    vkit_canary.HITS.clear()
    mapping = {f["id"]: (f["key"] if "key" in f else tuple(f["path"])) for f in fields if "key" in f or "path" in f}
    if case.get("key_cls"):
        # the same keys as instances of str subclasses (members of a str-mixin Enum; a subclass whose repr is code): a key is data
        # whatever its class says about itself, and the expected keys in loaded / dumped data stay the plain strings
        wrap = _key_wrapper(case["key_cls"])
        mapping = {fid: (wrap(k) if isinstance(k, str) else tuple(wrap(x) for x in k)) for fid, k in mapping.items()}
    nm_kwargs = {}
    if mapping:
        nm_kwargs["map"] = mapping
    if case.get("omit_default"):
        nm_kwargs["omit_default"] = True   # sieved fields take another path through the dumper generator
    recipe = [name_mapping(cls, **nm_kwargs)] if nm_kwargs else []
    collide = [f["id"] for f in fields if f["id"] in INTERNAL + PREFIXED + BUILTINS]
    meta = any(("key" in f and f["key"] in HOSTILE_KEYS) or "path" in f for f in fields)
    ctx.case([case], bool(collide) or meta,
             sample={k: case[k] for k in ("gen", "kind", "fields", "cls_name", "debug") if k in case} |
             ({"func_name": case.get("func_name"), "params": case.get("params")} if gen == "impl_converter" else {}),
             labels=[f"gen:{gen}", f"kind:{kind}", *(["collides_internal"] if collide else []),
                     *(["hostile_key"] if meta else []), *(["canary_key"] if any(f.get("key") in CANARY or
                                                                                 any(p in CANARY for p in f.get("path", []))
                                                                                 for f in fields) else [])])
    head = f"gen={gen} kind={kind} cls_name={case['cls_name']!r} fields={fields!r}" + \
        (f" func_name={case.get('func_name')!r} params={case.get('params')!r}" if gen == "impl_converter" else "")

    nfkc = any(unicodedata.normalize("NFKC", f["id"]) != f["id"] for f in fields)
    if nfkc:
        ctx.count("probed_known_nfkc_typeddict_key")

    def viol(vkind, discr, detail):
        ctx.violation(vkind, (gen, *discr, *(["nfkc_sensitive_typeddict_key"] if nfkc else [])), case, f"{head}: {detail}")

    values = {f["id"]: ("val", f["id"], object()) for f in fields}

    def make_obj(klass, only_required=False):
        kw = {(f["id"].lstrip("_") if kind == "attrs" else f["id"]): values[f["id"]] for f in fields if not (only_required and f["opt"])}
        return klass(**kw)

    def get(obj, fid):
        if kind == "typeddict":
            return obj.get(fid, "<key absent>") if isinstance(obj, dict) else "<not a dict>"
        return getattr(obj, fid, "<attribute absent>")

    def build_datum(skip=None):
        d: dict = {}
        for f in fields:
            if f["id"] == skip:
                # keep the container of a nested path present so that exactly the leaf key is missing
                cur = d
                for k in key_path(f, case)[:-1]:
                    cur = cur.setdefault(k, {})
                continue
            cur = d
            p = key_path(f, case)
            for k in p[:-1]:
                cur = cur.setdefault(k, {})
            cur[p[-1]] = values[f["id"]]
        return d

    if gen in ("loader", "dumper"):
        retort = Retort(recipe=recipe, debug_trail=DEBUG[case["debug"]])
        try:
            fn = retort.get_loader(cls) if gen == "loader" else retort.get_dumper(cls)
        except ProviderNotFoundError as ex:
            viol("generation_refused", (kind,), describe(ex.__cause__ or ex))
            return
        except Exception as ex:  # noqa: BLE001
            viol("generation_crashed", (type(ex).__name__, exc_site(ex)), describe(ex))
            return
        if gen == "loader":
            try:
                obj = fn(build_datum())
            except Exception as ex:  # noqa: BLE001
                viol("load_failed", (type(ex).__name__, exc_site(ex)), f"datum={build_datum()!r}: {describe(ex)}")
            else:
                for f in fields:
                    if get(obj, f["id"]) is not values[f["id"]]:
                        viol("field_loaded_from_wrong_key", (kind,), f"field {f['id']!r} got {get(obj, f['id'])!r}")
            req = [f for f in fields if not f["opt"]]
            if req:
                victim = req[0]
                try:
                    fn(build_datum(skip=victim["id"]))
                except Exception as ex:  # noqa: BLE001
                    nodes = list(all_nodes(ex))
                    nr = [x for x in nodes if isinstance(x, le.NoRequiredFieldsLoadError)]
                    if not all(isinstance(x, le.LoadError) for x in nodes):
                        viol("faulty_input_non_loaderror", (type(ex).__name__, exc_site(ex)), describe(ex))
                    elif not nr or set(nr[0].fields) != {key_path(victim, case)[-1]}:
                        viol("missing_key_reported_wrongly", (kind,), f"expected fields={{{key_path(victim, case)[-1]!r}}}: {describe(ex)}")
                else:
                    viol("missing_required_key_accepted", (kind,), f"victim {victim['id']!r}")
        else:
            obj = make_obj(cls)
            try:
                out = fn(obj)
            except Exception as ex:  # noqa: BLE001
                viol("dump_failed", (type(ex).__name__, exc_site(ex)), describe(ex))
            else:
                exp: dict = {}
                for f in fields:
                    if f["id"].startswith("_") and "key" not in f and "path" not in f:
                        continue  # private fields are skipped by the builtin name mapping unless mapped explicitly
                    cur = exp
                    p = key_path(f, case)
                    for k in p[:-1]:
                        cur = cur.setdefault(k, {})
                    cur[p[-1]] = values[f["id"]]
                if out != exp:
                    viol("dumped_to_wrong_keys", (kind,), f"dumped {out!r}, expected {exp!r}")
    else:
        dst_case = {**case, "cls_name": case["cls_name"] + "Dst"}
        link_funcs = [n for n in case.get("link_funcs") or []] if gen == "converter" else []
        nested_same = bool(case.get("nested_same_name")) and gen == "converter"
        used_ids = {f["id"] for f in fields}
        lf_ids = [f"zz_lf{i}" for i in range(len(link_funcs))]
        conv_recipe = []
        src_extra, dst_extra = [], []
        lf_markers = {}
        scalar_fids = set()
        if nested_same:
            inner_src = dataclasses.make_dataclass(f"C19I{next(_uid)}", [("v", typing.Any)])
            inner_dst = dataclasses.make_dataclass(f"C19I{next(_uid)}D", [("v", typing.Any)])
            for k, nm in ((inner_src, case["cls_name"]), (inner_dst, case["cls_name"] + "Dst")):
                try:
                    k.__name__ = k.__qualname__ = nm
                except (TypeError, ValueError):
                    pass
            src_extra.append(("zz_nested", inner_src))
            dst_extra.append(("zz_nested", inner_dst))
        if (set(lf_ids) | {"zz_nested"}) & used_ids:
            return
        try:
            if src_extra or link_funcs:
                cls = build_model(case, "", extra=src_extra)
                try:
                    cls.__name__ = cls.__qualname__ = case["cls_name"]
                except (TypeError, ValueError):
                    pass
            dst = build_model(dst_case, "D", extra=[*dst_extra, *[(i, typing.Any) for i in lf_ids]])
        except Exception:  # noqa: BLE001
            return
        link_kinds = case.get("link_kinds") or ["named"] * len(link_funcs)
        for fid, fname, lk in zip(lf_ids, link_funcs, link_kinds):
            marker = ("linked", fid, object())
            if lk == "constant_dict":
                marker = {Color.RED: marker, EvilRepr(): 1}
            if lk.startswith("scalar:"):
                marker = SCALAR_CONSTANTS[lk.split(":", 1)[1]]()
                scalar_fids.add(fid)
            lf_markers[fid] = marker
            if lk in ("constant_obj", "constant_dict") or lk.startswith("scalar:"):
                conv_recipe.append(link_constant(P[dst][fid], value=marker))
                continue
            if lk == "partial":
                # a factory without __name__: the generator numbers it (func_N)
                conv_recipe.append(link_constant(P[dst][fid], factory=functools.partial(_identity, marker)))
                continue
            fn = _returning(marker)
            try:
                fn.__name__ = fn.__qualname__ = fname
            except (TypeError, ValueError):
                pass
            conv_recipe.append(link_function(fn, P[dst][fid]))
        conv_kwargs = {"name": case["conv_name"]} if case.get("conv_name") is not None else {}
        try:
            if gen == "converter":
                conv = get_converter(cls, dst, recipe=conv_recipe, **conv_kwargs)
                extra_args: tuple = ()
            else:
                params = case.get("params", [])
                pos = [p for p in params if not p["kw"]]
                kws = [p for p in params if p["kw"]]
                pos = sorted(pos, key=lambda p: p["default"] is not None)
                ns = {"Src": cls, "Dst": dst}
                parts = ["a_src: Src"]
                for i, p in enumerate(pos + kws):
                    if p is (kws[0] if kws else None):
                        parts.append("*")
                    if p["default"] is not None:
                        ns[f"_P{i}"] = PARAM_DEFAULTS[p["default"]]()
                        parts.append(f"{p['n']}: Any = _P{i}")
                    else:
                        parts.append(f"{p['n']}: Any")
                ns["Any"] = typing.Any
                src = f"def stub({', '.join(parts)}) -> Dst:\n    '''doc'''\n    ...\n"
                exec(compile(src, "<c19 stub>", "exec", dont_inherit=True), ns)  # noqa: S102
                stub = ns["stub"]
                try:
                    stub.__name__ = case["func_name"]
                    stub.__qualname__ = case["func_name"]
                except (TypeError, ValueError):
                    pass
                conv = impl_converter(stub)
                if str(inspect.signature(conv)) != str(inspect.signature(stub)) or \
                        [p.kind for p in inspect.signature(conv).parameters.values()] != \
                        [p.kind for p in inspect.signature(stub).parameters.values()]:
                    viol("signature_not_preserved", (), f"{inspect.signature(conv)} vs {inspect.signature(stub)}")
                if conv.__name__ != stub.__name__ or conv.__doc__ != stub.__doc__:
                    viol("name_or_doc_not_preserved", (), f"{conv.__name__!r} {conv.__doc__!r}")
                extra_args = tuple(("arg", p["n"]) for p in pos if p["default"] is None)
                extra_kw = {p["n"]: ("arg", p["n"]) for p in kws if p["default"] is None}
        except ProviderNotFoundError as ex:
            viol("generation_refused", (kind,), describe(ex.__cause__ or ex))
            return
        except Exception as ex:  # noqa: BLE001
            viol("generation_crashed", (type(ex).__name__, exc_site(ex)), describe(ex))
            return
        nested_marker = ("nested", object())
        if nested_same:
            kw = {f["id"]: values[f["id"]] for f in fields}
            src_obj = cls(**kw, zz_nested=inner_src(nested_marker))
        else:
            src_obj = make_obj(cls)
        try:
            res = conv(src_obj, *extra_args, **(extra_kw if gen == "impl_converter" else {}))
        except Exception as ex:  # noqa: BLE001
            viol("convert_failed", (type(ex).__name__, exc_site(ex)), describe(ex))
        else:
            shadow = {p["n"] for p in case.get("params", [])} if gen == "impl_converter" else set()
            for f in fields:
                if f["id"] in shadow:
                    continue
                if get(res, f["id"]) is not values[f["id"]]:
                    viol("field_not_copied", (kind,), f"field {f['id']!r}: {get(res, f['id'])!r}")
            for fid, marker in lf_markers.items():
                if fid in scalar_fids:
                    if not same_constant(get(res, fid), marker):
                        viol("link_constant_value_changed", (type(marker).__name__,),
                             f"field {fid!r} must hold the constant {str.__repr__(marker) if isinstance(marker, str) else type(marker).__name__}"
                             f" of {type(marker).__name__}: got {type(get(res, fid)).__name__}")
                    continue
                if get(res, fid) is not marker and not (isinstance(marker, dict) and tspec_canon_eq(get(res, fid), marker)):
                    viol("link_function_result_misplaced", (kind,),
                         f"field {fid!r} must hold the result of its link_function (functions named {link_funcs!r}): "
                         f"{get(res, fid)!r}")
            if nested_same:
                inner = get(res, "zz_nested")
                if type(inner) is not inner_dst or inner.v is not nested_marker:
                    viol("nested_same_name_pair", (kind,), f"nested model named like the outer one: {inner!r}")
    if vkit_canary.HITS:
        viol("injected_text_executed", (kind,), f"canary hits: {vkit_canary.HITS!r}")
        vkit_canary.HITS.clear()


def explore(ctx: runner.Ctx):
    ctx.given(st_case(), lambda c: check_case(ctx, c), ctx.budget(14000, 300000))


RULE = ("cases = (generator: model loader / model dumper / get_converter / impl_converter, model kind, 1-5 fields with ids from "
        "the hostile-identifier dictionary, mapped keys / nested paths from the hostile-string dictionary or st.text, class "
        "and stub names, parameter defaults with hostile reprs). Non-trivial = a field id collides with an identifier used in "
        "generated code / a builtin, or a mapped key contains a metacharacter. Distinct by the whole case.")

if __name__ == "__main__":
    raise SystemExit(runner.main(
        PROP, explore=explore, check_case=check_case, strategy=st_case(), rule=RULE,
        assumptions=["raw keywords are never field ids (only keyword + underscore); dunder-prefixed ids only as TypedDict keys",
                     "NFKC-sensitive identifiers only as TypedDict keys (Python itself normalises attribute names)",
                     "name_style is not combined with hostile ids (documented: ids must be snake_case to be converted)"],
    ))
