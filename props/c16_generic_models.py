"""C16 -- Generic models: type arguments are substituted through the class hierarchy.

Generated (pure data): a *hierarchy spec* -- a list of classes of ONE model kind (dataclass / attrs / NamedTuple /
TypedDict / pydantic), each with its type parameters (order matters), its bases with the type arguments passed to
them (partially bound, re-ordered, renamed, TypeVarTuple splices, bare), and its own annotated fields (possibly
overriding an inherited member) -- plus a *query* (a class of the hierarchy, parametrised from a pool of mutually
exclusive strict types, or bare), a debug_trail mode and two data variants.  Classes are created by ``exec`` of
generated source with unique names.  WHERE things are declared is generated too (``mods``): up to three dynamic modules
per case, every type variable, every class and the helper model has its own declaring module (``__module__`` of
classes and of TypeVars is the right one: each declaration is executed inside its module's namespace), and the bound
of B0 / the constraints of K0 may be spelled as strings or ForwardRefs (``limsp``) whose names are bound to the real
types in the variable's own module and are the same / bound to an unrelated model / absent in the other modules.

Oracle (DESIGN.md C16; no adaptix code involved in the expectation):
  the harness knows every field's defining class, annotation and every base's arguments, so it computes the
  expected *closed* type of every field of the query by composing the environments from the query down to the
  defining class (own substitution: ``subst`` / ``bind`` / ``expected_fields``).  Then
  * loader and dumper creation must succeed;
  * data built for the expected field types loads, the loaded object has exactly the expected field values,
    ``dump(load(data)) == data`` and ``dump(directly constructed object) == data``;
  * for every field, data built for *another* closed type (the same annotation under a different binding of
    its type variables, the overridden parent's version, other pool members) that does not conform to the
    expected type must be rejected with a LoadError whose trail starts at that field (debug_trail != DISABLE);
    if it happens to conform it must be accepted;
  * bare use = the documented implicit parameters (``Any`` / bound / ``Union`` of constraints); a limit written as
    a forward reference denotes what the TypeVar's own module binds the name to.
Three-valued: zones the docs do not fix (bare TypeVarTuple, bound/constrained variables behind a bare *base*)
are ``unspecified`` (counted, never asserted).
"""
from __future__ import annotations

import itertools
import os
import re
import sys
import types

from vkit import env, runner
from vkit.errors import describe, exc_site, leaves

env.import_adaptix()

from hypothesis import strategies as st  # noqa: E402

from adaptix import DebugTrail, ProviderNotFoundError, Retort  # noqa: E402
from adaptix.load_error import LoadError  # noqa: E402

PROP = "C16"
DEBUG = [DebugTrail.DISABLE, DebugTrail.FIRST, DebugTrail.ALL]
KINDS = ["dataclass", "attrs", "namedtuple", "typeddict", "pydantic"]
SCALARS = [["int"], ["str"], ["bool"], ["none"]]

# type variables available to every generated module (a small fixed pool, so the SAME variable object is
# naturally re-used at several levels with different bindings)
PLAIN_TV = ["T0", "T1", "T2"]
TVT = "Ts0"


def site(e):
    """exc_site with the per-case class numbers / type names removed (otherwise every case is its own bucket)."""
    s = re.sub(r"\d+", "N", exc_site(e))
    return re.sub(r"(<generated>:model_(?:dumper|loader)).*", r"\1", s)    # the rest spells the model type


class Skip(Exception):
    """The generated hierarchy is outside the asserted zone (reason = counter name)."""


# =================================================================================== type expressions
# closed/open type expression (JSON lists):
#   ["int"] ["str"] ["bool"] ["none"] ["leaf"]          scalars and the non-generic helper model  Leaf(v: int)
#   ["list", t] ["opt", t] ["dict", t]                  List[t] / Optional[t] / Dict[str, t]
#   ["tup", [item...]]                                  fixed-size tuple; an item may be ["unpack", "Ts0"]
#   ["tv", name]                                        a type variable of the enclosing class
#   ["gen", j, [item...]]                               class j of the hierarchy, parametrised (items as in tup)
#   ["genbare", j]                                      class j used bare inside an annotation
# only in *expected* types:  ["any"]  ["union", [t...]]  ["unspec"]  (and the sequence marker ["unspec_seq"])

def walk(t):
    yield t
    tag = t[0]
    if tag in ("list", "opt", "dict"):
        yield from walk(t[1])
    elif tag == "tup":
        for it in t[1]:
            yield from walk(it)
    elif tag == "gen":
        for it in t[2]:
            yield from walk(it)
    elif tag == "union":
        for it in t[1]:
            yield from walk(it)


def free_tvars(t):
    return [n[1] for n in walk(t) if n[0] in ("tv", "unpack")]


def subst(t, envr):
    tag = t[0]
    if tag == "tv":
        return envr[t[1]]
    if tag in ("list", "opt", "dict"):
        return [tag, subst(t[1], envr)]
    if tag == "tup":
        return ["tup", subst_seq(t[1], envr)]
    if tag == "gen":
        return ["gen", t[1], subst_seq(t[2], envr)]
    return t


def subst_seq(items, envr):
    out = []
    for it in items:
        if it[0] == "unpack":
            out.extend(envr[it[1]])
        else:
            out.append(subst(it, envr))
    return out


def bind(params, args):
    """params: names in order (at most one TypeVarTuple); args: closed types -> environment."""
    if any(a[0] == "unspec_seq" for a in args):
        # a sequence of unknown length was spliced in: no position is known any more
        return {p: ([["unspec_seq"]] if p == TVT else ["unspec"]) for p in params}
    n_plain = sum(1 for p in params if p != TVT)
    if TVT not in params:
        if len(args) != len(params):
            raise AssertionError(f"arity mismatch {params} {args}")
        return dict(zip(params, args))
    tlen = len(args) - n_plain
    if tlen < 0:
        raise AssertionError(f"too few arguments {params} {args}")
    envr, idx = {}, 0
    for p in params:
        if p == TVT:
            envr[p] = list(args[idx:idx + tlen])
            idx += tlen
        else:
            envr[p] = args[idx]
            idx += 1
    return envr


def tv_kind(name):
    return "tvt" if name == TVT else "bound" if name == "B0" else "constr" if name == "K0" else "plain"


def implicit_env(case, params, *, base: bool):
    """Documented implicit parameters (docs/loading-and-dumping/extended-usage.rst, 'Generic classes'):
    T -> Any, bound -> the bound, constraints -> Union of them.  A TypeVarTuple has no documented implicit
    parameter -> unspecified.  For a bare *base* the Python specification says Any while the adaptix rule says
    bound/Union: both agree for a plain variable only, the rest is unspecified."""
    envr = {}
    for p in params:
        k = tv_kind(p)
        if k == "tvt":
            envr[p] = [["unspec_seq"]]
        elif k == "plain":
            envr[p] = ["any"]
        elif base:
            envr[p] = ["unspec"]
        elif k == "bound":
            envr[p] = case["bound"]
        else:
            envr[p] = ["union", list(case["constr"])]
    return envr


# =================================================================================== source generation
_counter = itertools.count()


def render(t, names, sp):
    tag = t[0]
    if tag == "int":
        return "int"
    if tag == "str":
        return "str"
    if tag == "bool":
        return "bool"
    if tag == "none":
        return "None"
    if tag == "leaf":
        return names["leaf"]
    if tag == "tv":
        return t[1]
    if tag == "unpack":
        return f"*{t[1]}" if sp == "builtin" else f"Unpack[{t[1]}]"
    if tag == "list":
        return f"list[{render(t[1], names, sp)}]" if sp == "builtin" else f"List[{render(t[1], names, sp)}]"
    if tag == "dict":
        return (f"dict[str, {render(t[1], names, sp)}]" if sp == "builtin"
                else f"Dict[str, {render(t[1], names, sp)}]")
    if tag == "opt":
        inner = render(t[1], names, sp)
        if sp == "builtin" and t[1][0] in ("list", "dict", "tup", "tv", "int", "str", "bool"):
            return f"{inner} | None"
        return f"Optional[{inner}]"
    if tag == "tup":
        body = ", ".join(render(x, names, sp) for x in t[1]) or "()"
        return f"tuple[{body}]" if sp == "builtin" else f"Tuple[{body}]"
    if tag == "gen":
        body = ", ".join(render(x, names, sp) for x in t[2]) or "()"
        return f"{names['cls'][t[1]]}[{body}]"
    if tag == "genbare":
        return names["cls"][t[1]]
    raise ValueError(t)


def _walk_ann(t):
    yield t
    for x in t[1:]:
        if isinstance(x, list) and x and isinstance(x[0], str):
            yield from _walk_ann(x)
        elif isinstance(x, list):
            for y in x:
                if isinstance(y, list):
                    yield from _walk_ann(y)


def class_params(case, i):
    return list(case["classes"][i]["params"])


# ------------------------------------------------------------------------------------ modules and limit spellings
# A case may spread its declarations over several dynamic modules (``case["mods"]``):
#   {"n": number of modules, "tv": {type variable name: declaring module}, "cls": [declaring module of class i],
#    "leaf": declaring module of the helper model, "foreign": [per module: what the NAMES used inside string-spelled
#    bounds / constraints mean in that module when it is not the variable's own module: "same" (imported),
#    "decoy" (bound to another model class), "absent" (not defined)]}
# and may spell the bound of B0 / the constraints of K0 (``case["limsp"]``) as
#   "real"  -- the class objects themselves                     TypeVar("B0", bound=List[Leaf])
#   "str"   -- one string                                       TypeVar("B0", bound="List[LB_leaf]")
#   "fwd"   -- one explicit ForwardRef                          TypeVar("B0", bound=ForwardRef("List[LB_leaf]"))
#   "inner" -- real containers around string atoms              TypeVar("B0", bound=List["LB_leaf"])
# The strings use per-variable alias names (LB<uid>_<atom> / LK<uid>_<atom>) that the variable's OWN module binds
# to the real types: a forward reference inside a TypeVar denotes what its declaring module binds the name to (this
# is how ``typing`` / type checkers read it), whatever other modules call by that name.  The expectation
# (``case["bound"]`` / ``case["constr"]``) therefore does not depend on any of this.
ATOMS = ("int", "str", "bool", "none", "leaf")
ALL_TV = [*PLAIN_TV, "B0", "K0", TVT]


def case_mods(case):
    m = case.get("mods")
    if not m:
        return {"n": 1, "tv": {}, "cls": [0] * len(case["classes"]), "leaf": 0, "foreign": ["same"]}
    return m


def limit_spelling(case, which):
    return (case.get("limsp") or {}).get(which, "real")


def soft_limit_kinds(case):
    """Spellings of a limit that no adaptix document covers and that the implicit-parameter path of the unchanged
    tree refuses cleanly (ProviderNotFoundError): a forward reference nested inside a real container
    (``bound=List["Book"]``), and constraints written as plain strings (since Python 3.12 ``TypeVar`` keeps them as
    ``str`` objects instead of ForwardRef).  Creation may be refused there; whatever IS created is asserted."""
    out = set()
    if limit_spelling(case, "bound") == "inner" and case["bound"][0] not in ATOMS:
        out.add("bound")
    if limit_spelling(case, "constr") in ("str", "inner"):
        out.add("constr")
    return out


def render_limit(t, names, prefix, spelling):
    if spelling == "real":
        return render(t, names, "typing")

    def expr(x, quote):
        tag = x[0]
        if tag in ATOMS:
            nm = f"{prefix}_{tag}"
            return repr(nm) if quote else nm
        if tag == "list":
            return f"List[{expr(x[1], quote)}]"
        if tag == "opt":
            return f"Optional[{expr(x[1], quote)}]"
        if tag == "dict":
            return f"Dict[str, {expr(x[1], quote)}]"
        raise ValueError(x)
    if spelling == "str":
        return repr(expr(t, False))
    if spelling == "fwd":
        return f"ForwardRef({expr(t, False)!r})"
    if spelling == "inner":
        return expr(t, True)
    raise ValueError(spelling)


def limit_atoms(ts):
    out = []
    for t in ts:
        for n in walk(t):
            if n[0] in ATOMS and n[0] not in out:
                out.append(n[0])
    return out


def gen_program(case, uid):  # noqa: C901, PLR0912, PLR0915
    """-> (steps, names, module names); a step is (module index, source chunk); the chunks are executed in order,
    each inside the namespace of its module (so that classes AND type variables get the right ``__module__``)."""
    kind, sp = case["kind"], case["spelling"]
    mods = case_mods(case)
    nm = mods["n"]
    modnames = [f"c16_generated_{uid}" + (f"_m{k}" if nm > 1 else "") for k in range(nm)]
    names = {"leaf": f"Leaf{uid}", "decoy": f"Decoy{uid}", "cls": [f"M{uid}_{i}" for i in range(len(case["classes"]))]}
    steps = []
    prelude = [
        "from dataclasses import dataclass",
        "from typing import Annotated, Any, Dict, ForwardRef, Generic, List, NamedTuple, Optional, Tuple, TypedDict, "
        "TypeVar, TypeVarTuple, Union, Unpack",
        "import attrs",
    ]
    if kind == "pydantic":
        prelude.append("from pydantic import BaseModel")
    for m in range(nm):
        steps.append((m, "\n".join(prelude)))
    multi = any(len(c["bases"]) > 1 for c in case["classes"])
    attrs_dec = "@attrs.define(slots=False)" if (multi or not case.get("slots", True)) else "@attrs.define"

    def header(cname, bases_src, generic_src, root):
        deco, extra = "", []
        if kind == "dataclass":
            deco = "@dataclass"
        elif kind == "attrs":
            deco = attrs_dec
        elif kind == "namedtuple" and root:
            extra = ["NamedTuple"]
        elif kind == "typeddict" and root:
            extra = ["TypedDict"]
        elif kind == "pydantic" and root:
            extra = ["BaseModel"]
        allb = extra + bases_src + ([generic_src] if generic_src else [])
        out = [deco] if deco else []
        out.append(f"class {cname}({', '.join(allb)}):" if allb else f"class {cname}:")
        return out

    def export(home, name):
        for m in range(nm):
            if m != home:
                steps.append((m, f"from {modnames[home]} import {name}", "export"))

    # the helper model must exist before the TypeVars (the bound of B0 may be Leaf)
    steps.append((mods["leaf"], "\n".join(header(names["leaf"], [], "", True) + ["    v: int", ""])))
    export(mods["leaf"], names["leaf"])

    # names used by string-spelled limits: real in the variable's own module; same / decoy / absent elsewhere
    real = {"int": "int", "str": "str", "bool": "bool", "none": "None", "leaf": names["leaf"]}
    limits = (("B0", "bound", f"LB{uid}", [case["bound"]]), ("K0", "constr", f"LK{uid}", list(case["constr"])))
    spelled = [x for x in limits if limit_spelling(case, x[1]) != "real"]
    if spelled:
        for m in range(nm):
            if mods["foreign"][m] == "decoy" and any(mods["tv"].get(tv, 0) != m for tv, _, _, _ in spelled):
                steps.append((m, "\n".join(header(names["decoy"], [], "", True) + ["    w: str", ""])))
    for tv, _which, prefix, ts in spelled:
        home = mods["tv"].get(tv, 0)
        atoms = limit_atoms(ts)
        steps.append((home, "\n".join(f"{prefix}_{a} = {real[a]}" for a in atoms)))
        for m in range(nm):
            if m == home or mods["foreign"][m] == "absent":
                continue
            if mods["foreign"][m] == "same":
                steps.append((m, f"from {modnames[home]} import " + ", ".join(f"{prefix}_{a}" for a in atoms)))
            else:
                steps.append((m, "\n".join(f"{prefix}_{a} = {names['decoy']}" for a in atoms)))

    for tv in ALL_TV:
        home = mods["tv"].get(tv, 0)
        if tv == "B0":
            lim = render_limit(case["bound"], names, f"LB{uid}", limit_spelling(case, "bound"))
            src = f"B0 = TypeVar('B0', bound={lim})"
        elif tv == "K0":
            src = "K0 = TypeVar('K0', " + ", ".join(
                render_limit(c, names, f"LK{uid}", limit_spelling(case, "constr")) for c in case["constr"]) + ")"
        elif tv == TVT:
            src = f"{TVT} = TypeVarTuple({TVT!r})"
        else:
            src = f"{tv} = TypeVar({tv!r})"
        steps.append((home, src))
        export(home, tv)

    for i, c in enumerate(case["classes"]):
        bases_src = []
        for b in c["bases"]:
            if b["args"] is None:
                bases_src.append(names["cls"][b["cls"]])
            else:
                bases_src.append(render(["gen", b["cls"], b["args"]], names, sp))
        params = class_params(case, i)
        generic_src = ""
        if params and c["explicit"]:
            generic_src = "Generic[" + ", ".join(
                (f"*{p}" if sp == "builtin" else f"Unpack[{p}]") if p == TVT else p for p in params) + "]"
        lines = header(names["cls"][i], bases_src, generic_src, root=not c["bases"])
        # "wrap": a transparent Annotated[...] around the whole annotation (also directly around a bare type variable)
        body = [f"    {f['name']}: " + (f"Annotated[{render(f['ann'], names, sp)}, 'meta']" if f.get("wrap") == "annotated"
                                        else render(f['ann'], names, sp)) for f in c["fields"]]
        lines += body or ["    pass"]
        if case.get("iter_dunder") and kind in ("dataclass", "attrs"):
            # a model may be iterable: it is still a model (also with exactly one type argument)
            lines += ["    def __iter__(self):", "        return iter(())"]
        lines.append("")
        steps.append((mods["cls"][i], "\n".join(lines)))
        export(mods["cls"][i], names["cls"][i])
    return steps, names, modnames


def program_text(steps, modnames):
    """Human-readable rendering (the replay file holds the case itself).  Every class, type variable and the helper
    model is imported into every other module right after its definition: those steps are folded into one line."""
    if len(modnames) == 1:
        return "\n".join(step[1] for step in steps)
    out, cur, folded = [f"# every module starts with:\n{steps[0][1]}"], None, None
    for step in steps[len(modnames):]:
        m, src = step[0], step[1]
        if len(step) > 2:
            name = src.rsplit(" ", 1)[-1]
            if folded != name:
                out.append(f"#      (then, in every other module: from {modnames[cur]} import {name})")
                folded = name
            continue
        if m != cur:
            out.append(f"# ---- in module {modnames[m]}")
            cur = m
        out.append(src)
    return "\n".join(out)


def build(case):
    uid = next(_counter)
    steps, names, modnames = gen_program(case, uid)
    src = program_text(steps, modnames)
    mods = [types.ModuleType(n) for n in modnames]
    for n, mod in zip(modnames, mods):
        sys.modules[n] = mod
    try:
        for k, (m, chunk, *_) in enumerate(steps):
            # (compiled WITHOUT dont_inherit, as this check always did: this module's ``from __future__ import
            # annotations`` makes the generated annotations lazy strings, resolved in the CLASS's module)
            exec(compile(chunk, f"<c16 generated {uid} step {k}>", "exec"), mods[m].__dict__)  # noqa: S102
    except TypeError as e:
        # Python itself refuses the hierarchy (inconsistent MRO, instance lay-out conflict, ...)
        for n in modnames:
            del sys.modules[n]
        raise Skip("class_rejected_by_python") from e
    except BaseException:
        for n in modnames:
            del sys.modules[n]
        raise
    cmods = case_mods(case)
    cls = [mods[cmods["cls"][i]].__dict__[n] for i, n in enumerate(names["cls"])]
    for i, c in enumerate(cls):
        if c.__module__ != modnames[cmods["cls"][i]]:
            raise AssertionError(f"harness: class {i} reports module {c.__module__}\n{src}")
    for tv in ALL_TV:
        home = cmods["tv"].get(tv, 0)
        if mods[home].__dict__[tv].__module__ != modnames[home] or any(
                m.__dict__[tv] is not mods[home].__dict__[tv] for m in mods):
            raise AssertionError(f"harness: type variable {tv} is not the one of module {modnames[home]}\n{src}")
    # every module imports every class, type variable and the helper model: module 0 can spell any query
    return {"mods": modnames, "ns": mods[0].__dict__, "src": src, "leaf": mods[cmods["leaf"]].__dict__[names["leaf"]],
            "cls": cls}


# =================================================================================== the independent expectation
class Hier:
    def __init__(self, case, built):
        self.case = case
        self.built = built
        self.kind = case["kind"]
        self.classes = case["classes"]
        self._index = {id(c): i for i, c in enumerate(built["cls"])} if built else {}

    def params(self, i):
        return class_params(self.case, i)

    def ancestors(self, i):
        out, stack = [], [i]
        while stack:
            k = stack.pop()
            for b in self.classes[k]["bases"]:
                if b["cls"] not in out:
                    out.append(b["cls"])
                    stack.append(b["cls"])
        return out

    def mro(self, i):
        """Indices of hierarchy classes in Python's own MRO of class i (TypedDict has no real MRO)."""
        if self.kind == "typeddict":
            return [i, *sorted(self.ancestors(i), reverse=True)]
        return [self._index[id(k)] for k in self.built["cls"][i].__mro__ if id(k) in self._index]

    def own_names(self, i):
        return [f["name"] for f in self.classes[i]["fields"]]

    def dc_definer(self, i):
        """Definer of each field the way ``dataclasses`` merges bases (every base contributes ALL its fields,
        reverse MRO, last writer wins).  Differs from the MRO reading only for overrides inside diamonds."""
        res = {}
        for b in reversed(self.mro(i)[1:]):
            res.update(self.dc_definer(b))
        for n in self.own_names(i):
            res[n] = i
        return res

    def definers(self, i):
        res = {}
        for k in self.mro(i):
            for n in self.own_names(k):
                res.setdefault(n, k)
        if self.kind != "typeddict" and res != self.dc_definer(i):
            # e.g. A.x ; B(A) ; C(A) re-annotates x ; D(B, C): the dataclass Field comes from A (through B) while
            # the annotation visible through the MRO is C's -- not a well defined member type
            raise Skip("skipped_ambiguous_override_in_diamond")
        return res

    def envs(self, i, envr):
        """Environment of every class reachable from i when i's own environment is ``envr``."""
        res = {i: envr}
        for b in self.classes[i]["bases"]:
            j = b["cls"]
            if b["args"] is None:
                sub = implicit_env(self.case, self.params(j), base=True)
            else:
                sub = bind(self.params(j), subst_seq(b["args"], envr))
            for k, e in self.envs(j, sub).items():
                if k in res and res[k] != e:
                    raise Skip("skipped_inconsistent_diamond_bindings")
                res[k] = e
        return res

    def behind_bare_base(self, i):
        """Classes below i that are reached through a bare generic base edge (their variables get implicit
        parameters although the queried class is parametrised) or through an empty variadic parametrisation
        ``X[()]`` -- the two base spellings adaptix is known not to resolve."""
        out = set()
        for b in self.classes[i]["bases"]:
            j = b["cls"]
            if (b["args"] is None and self.params(j)) or (b["args"] == [] and self.params(j) == [TVT]):
                out |= {j, *self.ancestors(j)}
            out |= self.behind_bare_base(j)
        return out

    def lost_fields(self, i):
        """(defining class, field) pairs visible from class i that adaptix is known to mis-resolve because it reads
        an *inherited* ``__orig_bases__``: a class D written without any generic alias among its bases has no
        ``__orig_bases__`` of its own, attribute lookup finds the one of the first MRO class O that has, so D is
        resolved as if it derived from O's bases directly.  A member whose defining class K is not reachable from
        O's bases (K = a bare generic base itself, a skipped class that re-annotates the member, the whole side of
        a second ground base) keeps its raw annotation -- harmful when that still has type variables, or is a bare
        generic class at top level while the member name also exists among O's bases' members.
        (``"__orig_bases__" in vars(cls)`` is asked from Python, not from adaptix.)"""
        out = set()
        if self.kind == "typeddict" or not self.built:
            return out
        for d in [i, *self.ancestors(i)]:
            cls = self.built["cls"][d]
            if "__orig_bases__" in vars(cls) or not self.classes[d]["bases"]:
                continue
            owner = next((self._index[id(k)] for k in cls.__mro__[1:]
                          if id(k) in self._index and "__orig_bases__" in vars(k)), None)
            reach = set()
            if owner is not None:
                for b in self.classes[owner]["bases"]:
                    reach |= {b["cls"], *self.ancestors(b["cls"])}
            reach_names = {n for k in reach for n in self.own_names(k)}
            for n, k in self.definers(d).items():
                if k == d or k in reach:
                    continue
                ann = next(f["ann"] for f in self.classes[k]["fields"] if f["name"] == n)
                if free_tvars(ann) or (ann[0] == "genbare" and self.params(ann[1]) and n in reach_names):
                    out.add((k, n))
        return out

    def touches_lost_field(self, t):
        for n in walk(t):
            if n[0] in ("gen", "genbare"):
                fields, defs, _ = self.expected_fields(n[1], None if n[0] == "genbare" and self.params(n[1])
                                                       else (n[2] if n[0] == "gen" else []))
                lost = self.lost_fields(n[1])
                if any((defs[f], f) in lost for f in fields) or any(self.touches_lost_field(ft)
                                                                   for ft in fields.values()):
                    return True
        return False

    def touches_bare_base(self, t):
        for n in walk(t):
            if n[0] in ("gen", "genbare"):
                fields, defs, _ = self.expected_fields(n[1], None if n[0] == "genbare" and self.params(n[1])
                                                       else (n[2] if n[0] == "gen" else []))
                tainted = self.behind_bare_base(n[1])
                if any(defs[f] in tainted for f in fields) or any(self.touches_bare_base(ft)
                                                                  for ft in fields.values()):
                    return True
        return False

    def expected_fields(self, i, args):
        """name -> closed expected type for class i parametrised with closed ``args`` (None = bare)."""
        params = self.params(i)
        if args is None:
            envr = implicit_env(self.case, params, base=False)
        else:
            envr = bind(params, args)
        envs = self.envs(i, envr)
        out = {}
        order = []
        for k in reversed(self.mro(i)):
            for n in self.own_names(k):
                if n not in order:
                    order.append(n)
        defs = self.definers(i)
        for n in order:
            d = defs[n]
            ann = next(f["ann"] for f in self.classes[d]["fields"] if f["name"] == n)
            out[n] = subst(ann, envs[d])
        return out, defs, envs

    def model_fields(self, t):
        """Expected fields of a closed model type (leaf / gen / genbare)."""
        if t[0] == "leaf":
            return {"v": ["int"]}
        if t[0] == "genbare":
            return self.expected_fields(t[1], None if self.params(t[1]) else [])[0]
        return self.expected_fields(t[1], t[2])[0]

    def model_class(self, t):
        return self.built["leaf"] if t[0] == "leaf" else self.built["cls"][t[1]]

    def unspecified(self, t):
        """Does the closed type (or a nested model's field type) contain an unspecified part?"""
        for n in walk(t):
            if n[0] in ("unspec", "unspec_seq"):
                return True
            if n[0] in ("gen", "genbare") and any(self.unspecified(ft) for ft in self.model_fields(n).values()):
                return True
        return False


ANY_SOUP = [7, "s", True, None, [1, "x"], {"k": 1}, [{"v": 1}], 2.5, [], {"v": "no"}]


def make_data(h: Hier, t, v, depth=0):
    """Data (outer representation) conforming to closed type t; v selects among the alternatives."""
    tag = t[0]
    if tag == "int":
        return 3 + v % 5
    if tag == "str":
        return ["x!", "text", ""][v % 3]
    if tag == "bool":
        return v % 2 == 0
    if tag == "none":
        return None
    if tag == "any":
        return ANY_SOUP[(v + depth) % len(ANY_SOUP)]
    if tag == "union":
        return make_data(h, t[1][(v + depth) % len(t[1])], v, depth + 1)
    if tag == "list":
        return [make_data(h, t[1], v + k, depth + 1) for k in range(1 + (v + depth) % 2)]
    if tag == "dict":
        return {f"k{k}": make_data(h, t[1], v + k, depth + 1) for k in range(1 + (v + depth) % 2)}
    if tag == "opt":
        if (v + depth) % 4 == 3:
            return None
        return make_data(h, t[1], v, depth + 1)
    if tag == "tup":
        return [make_data(h, x, v + k, depth + 1) for k, x in enumerate(t[1])]
    if tag in ("leaf", "gen", "genbare"):
        return {n: make_data(h, ft, v + k, depth + 1) for k, (n, ft) in enumerate(h.model_fields(t).items())}
    if tag == "decoy":      # the unrelated model some module binds a limit NAME to (never an expected type)
        return {"w": ["x!", "text", ""][v % 3]}
    raise ValueError(t)


def conforms(h: Hier, d, t):  # noqa: PLR0911, C901
    """Own statement of 'data fits the type' for the closed family (strict coercion).  Only ever applied to data
    produced by ``make_data`` for some type of the same family, so the answer is exact for what is asked."""
    tag = t[0]
    if tag == "any":
        return True
    if tag == "int":
        return type(d) is int
    if tag == "str":
        return type(d) is str
    if tag == "bool":
        return type(d) is bool
    if tag == "none":
        return d is None
    if tag == "union":
        return any(conforms(h, d, x) for x in t[1])
    if tag == "opt":
        return d is None or conforms(h, d, t[1])
    if tag == "list":
        return type(d) is list and all(conforms(h, x, t[1]) for x in d)
    if tag == "dict":
        return type(d) is dict and all(type(k) is str and conforms(h, x, t[1]) for k, x in d.items())
    if tag == "tup":
        return type(d) is list and len(d) == len(t[1]) and all(conforms(h, x, tt) for x, tt in zip(d, t[1]))
    if tag in ("leaf", "gen", "genbare"):
        fields = h.model_fields(t)
        # unknown keys are skipped by default (docs: extra_in=ExtraSkip), so only the model's own keys matter
        return type(d) is dict and set(fields) <= set(d) and all(conforms(h, d[n], ft) for n, ft in fields.items())
    if tag == "decoy":
        return type(d) is dict and type(d.get("w")) is str
    raise ValueError(t)


def get_field(kind, obj, name):
    if kind == "typeddict":
        return obj[name]
    return getattr(obj, name)


def value_matches(h: Hier, obj, t, d):  # noqa: PLR0911, C901
    """Does the loaded object equal what type t makes of data d?  Returns a reason string or None."""
    tag = t[0]
    if tag in ("int", "str", "bool", "none"):
        return None if type(obj) is type(d) and obj == d else f"scalar {obj!r} != {d!r}"
    if tag == "any":
        # docs (specific-types-behavior): Any -- "Value is passed as is, without any conversion"
        return None if same_data(obj, d) else f"Any field changed {d!r} -> {obj!r}"
    if tag == "union":
        for x in t[1]:
            if conforms(h, d, x):
                return value_matches(h, obj, x, d)
        raise AssertionError("data conforms to no union member")
    if tag == "opt":
        if d is None:
            return None if obj is None else f"None loaded as {obj!r}"
        return value_matches(h, obj, t[1], d)
    if tag == "list":
        if type(obj) is not list or len(obj) != len(d):
            return f"list expected, got {obj!r}"
        return next((r for r in (value_matches(h, o, t[1], x) for o, x in zip(obj, d)) if r), None)
    if tag == "dict":
        if type(obj) is not dict or list(obj) != list(d):
            return f"dict expected, got {obj!r}"
        return next((r for r in (value_matches(h, obj[k], t[1], d[k]) for k in d) if r), None)
    if tag == "tup":
        if type(obj) is not tuple or len(obj) != len(d):
            return f"tuple expected, got {obj!r}"
        return next((r for r in (value_matches(h, o, tt, x) for o, tt, x in zip(obj, t[1], d)) if r), None)
    if tag in ("leaf", "gen", "genbare"):
        cls = h.model_class(t)
        if h.kind == "typeddict":
            if type(obj) is not dict:
                return f"dict (TypedDict) expected, got {obj!r}"
        elif not isinstance(obj, cls):
            return f"instance of {cls.__name__} expected, got {obj!r}"
        for n, ft in h.model_fields(t).items():
            try:
                fv = get_field(h.kind, obj, n)
            except (AttributeError, KeyError):
                return f"field {n} missing in {obj!r}"
            r = value_matches(h, fv, ft, d[n])
            if r:
                return f"{n}: {r}"
        return None
    raise ValueError(t)


def construct(h: Hier, t, d):
    """Python object of closed type t with outer representation d (built with the real constructors)."""
    tag = t[0]
    if tag in ("int", "str", "bool", "none", "any"):
        return d
    if tag == "union":
        for x in t[1]:
            if conforms(h, d, x):
                return construct(h, x, d)
        raise AssertionError("data conforms to no union member")
    if tag == "opt":
        return None if d is None else construct(h, t[1], d)
    if tag == "list":
        return [construct(h, t[1], x) for x in d]
    if tag == "dict":
        return {k: construct(h, t[1], x) for k, x in d.items()}
    if tag == "tup":
        return tuple(construct(h, tt, x) for tt, x in zip(t[1], d))
    if tag in ("leaf", "gen", "genbare"):
        kw = {n: construct(h, ft, d[n]) for n, ft in h.model_fields(t).items()}
        cls = h.model_class(t)
        if h.kind == "typeddict":
            return dict(kw)
        if h.kind == "pydantic":
            return cls.model_construct(**kw)
        return cls(**kw)
    raise ValueError(t)


def norm_seq(x):
    if isinstance(x, (list, tuple)):
        return [norm_seq(i) for i in x]
    if type(x) is dict:
        return {k: norm_seq(v) for k, v in x.items()}
    return x


def same_data(a, b):
    a, b = norm_seq(a), norm_seq(b)
    if type(a) is not type(b):
        return False
    if type(a) is list:
        return len(a) == len(b) and all(same_data(x, y) for x, y in zip(a, b))
    if type(a) is dict:
        return set(a) == set(b) and all(same_data(a[k], b[k]) for k in a)
    return a == b


# =================================================================================== features / tags
def uses(h: Hier, case, exp):
    """Every (class index, number of type arguments or None for bare) at which a hierarchy class is *used as a
    type to load*: the query and the (closed) generic references reachable through the expected field types."""
    q = case["query"]
    out = [(q["cls"], None if q["args"] is None else len(q["args"]))]

    def rec(t):
        for n in walk(t):
            if n[0] == "gen":
                out.append((n[1], -1 if any(a[0] in ("unspec", "unspec_seq") for a in n[2]) else len(n[2])))
                for ft in h.model_fields(n).values():
                    rec(ft)
            elif n[0] == "genbare":
                out.append((n[1], None))
                for ft in h.model_fields(n).values():
                    rec(ft)
    for t in exp.values():
        rec(t)
    return out


def known_tags(h: Hier, case, exp, envs=None):
    """Tags of the (so far) known defect classes a case falls into -- part of the violation signature, so that
    known-finding matchers stay narrow."""
    tags = set()
    used = uses(h, case, exp)
    relevant = set()
    for j, _ in used:
        relevant |= {j, *h.ancestors(j)}
    for i in relevant:
        for b in h.classes[i]["bases"]:
            bp = h.params(b["cls"])
            if b["args"] is None and bp:
                tags.add("bare_generic_base")
                if bp == [TVT]:
                    tags.add("bare_only_tvt")
            if b["args"] == [] and bp == [TVT]:
                tags.add("empty_tvt_args")
    for t in exp.values():
        for n in walk(t):
            if n[0] == "gen" and h.params(n[1]) == [TVT] and n[2] == [["unspec_seq"]]:
                tags.add("bare_only_tvt")        # X[*tuple[Any, ...]]: the same call as the bare class
    if envs and any(e.get(TVT) == [["unspec_seq"]] for e in envs.values()):
        # the TypeVarTuple is bound to the implicit *tuple[Any, ...] somewhere: every type expression X[*Ts] with
        # X generic in the TypeVarTuple only then denotes X[*tuple[Any, ...]], i.e. the bare variadic-only generic
        for i in relevant:
            exprs = [f["ann"] for f in h.classes[i]["fields"]]
            exprs += [a for b in h.classes[i]["bases"] for a in (b["args"] or [])]
            for t in exprs:
                for n in walk(t):
                    if n[0] == "gen" and n[2] == [["unpack", TVT]] and h.params(n[1]) == [TVT]:
                        tags.add("bare_only_tvt")
    for j, n in used:
        params = h.params(j)
        if not params:
            continue
        if case["kind"] in ("namedtuple", "pydantic") and (n == 1 or (n is None and len(params) == 1)):
            tags.add("one_type_arg")
        if params == [TVT]:
            if n is None:
                tags.add("bare_only_tvt")
            elif n == 0:
                tags.add("empty_tvt_args")
    return sorted(tags)


def module_labels(h: Hier, case, exp):
    """Labels of the module / limit-spelling dimension, and: does an implicit parameter of this case come from a
    limit whose spelling is outside every document (``soft_limit_kinds``)?"""
    mods = case_mods(case)
    labels = [f"modules:{mods['n']}"]
    used = uses(h, case, exp)
    relevant = set()
    for j, _ in used:
        relevant |= {j, *h.ancestors(j)}
    if any(mods["tv"].get(p, 0) != mods["cls"][i] for i in relevant for p in h.params(i)):
        labels.append("typevar_declared_in_another_module")
    if len({mods["cls"][i] for i in relevant}) > 1:
        labels.append("hierarchy_spans_modules")
    soft = soft_limit_kinds(case)
    soft_used = False
    seen = set()
    for j, n in used:
        if n is not None:
            continue
        for p in h.params(j):
            k = tv_kind(p)
            if k not in ("bound", "constr"):
                continue
            spl = limit_spelling(case, k)
            if k in soft:
                soft_used = True
                spl += "(undocumented)"
            home = mods["tv"].get(p, 0)
            where = "own_module" if home == mods["cls"][j] else "other_module_name_" + mods["foreign"][mods["cls"][j]]
            for lab in (f"implicit_{k}_spelled:{spl}", f"implicit_limit_from:{where}" if spl != "real" else None):
                if lab and lab not in seen:
                    seen.add(lab)
                    labels.append(lab)
    return labels, soft_used


def structure_labels(h: Hier, case, defs, q):
    labels = []

    def chain(i):
        return 1 + max((chain(b["cls"]) for b in h.classes[i]["bases"]), default=0)
    levels = chain(q)
    labels.append(f"levels:{min(levels, 4)}")
    anc = h.ancestors(q)
    rel = [q, *anc]
    seen, diamond = set(), False

    def visit(i):
        nonlocal diamond
        for b in h.classes[i]["bases"]:
            if b["cls"] in seen:
                diamond = True
            else:
                seen.add(b["cls"])
                visit(b["cls"])
    visit(q)
    if diamond:
        labels.append("diamond")
    if any(len(h.classes[i]["bases"]) > 1 for i in rel):
        labels.append("multiple_inheritance")
    override = any(sum(1 for k in rel if n in h.own_names(k)) > 1 for n in defs)
    if override:
        labels.append("override")
    permuted = renamed = partial = rebound = tvt_splice = False
    for i in rel:
        params = h.params(i)
        for b in h.classes[i]["bases"]:
            if b["args"] is None:
                continue
            bp = h.params(b["cls"])
            direct = [a[1] for a in b["args"] if a[0] in ("tv", "unpack")]
            if len(direct) >= 2 and direct != [p for p in params if p in direct]:
                permuted = True
            if any(a[0] == "unpack" for a in b["args"]):
                tvt_splice = True
            closed = [a for a in b["args"] if not free_tvars(a)]
            if closed and len(closed) < len(b["args"]):
                partial = True
            if TVT not in bp and len(bp) == len(b["args"]):
                for p, a in zip(bp, b["args"]):
                    if a[0] == "tv" and a[1] != p:
                        renamed = True
                    if a[0] != "tv" and p in params:
                        rebound = True   # the same variable object means different things at the two levels
    # single level: the order in which fields use the variables differs from the parameter order
    qp = [p for p in h.params(q)]
    first_use = []
    for n in defs:
        for k in rel:
            for f in h.classes[k]["fields"]:
                if f["name"] == n and k == defs[n]:
                    for tv in free_tvars(f["ann"]):
                        if tv not in first_use and k == q:
                            first_use.append(tv)
    if len(first_use) >= 2 and first_use != [p for p in qp if p in first_use]:
        permuted = True
    for flag, name in ((permuted, "permuted"), (renamed, "renamed_tv"), (partial, "partially_bound"),
                       (rebound, "same_tv_rebound"), (tvt_splice, "tvt_spliced_into_base")):
        if flag:
            labels.append(name)
    if any(TVT in h.params(i) for i in rel):
        labels.append("tvt")
    if any(not h.params(i) and h.classes[i]["bases"] for i in rel):
        labels.append("ground_subclass")
    return labels, levels, permuted


# =================================================================================== the oracle
def check_case(ctx: runner.Ctx, case):  # noqa: C901, PLR0912, PLR0915
    if "initvar" in case:
        return check_initvar(ctx, case)
    if case.get("steered"):
        ctx.count("excluded_known")
    if case.get("steered_limsp"):
        ctx.count("excluded_undocumented_limit_spelling")
    try:
        built = build(case)
    except Skip as s:
        ctx.count(str(s))
        return
    try:
        _check_built(ctx, case, built)
    except Skip as s:
        ctx.count(str(s))
    finally:
        for n in built["mods"]:
            sys.modules.pop(n, None)


def _sanity_params(h: Hier, case, built):
    for i, cls in enumerate(built["cls"]):
        if case["kind"] == "pydantic":
            got = [p.__name__ for p in cls.__pydantic_generic_metadata__["parameters"]]
        else:
            got = [p.__name__ for p in getattr(cls, "__parameters__", ())]
        if got != h.params(i):
            raise AssertionError(f"harness: parameters of class {i} are {got}, spec says {h.params(i)}\n{built['src']}")


def _check_built(ctx, case, built):  # noqa: C901, PLR0912, PLR0915
    kind = case["kind"]
    h = Hier(case, built)
    _sanity_params(h, case, built)
    q = case["query"]
    qi = q["cls"]
    params = h.params(qi)
    bare = q["args"] is None and bool(params)
    exp, defs, _envs = h.expected_fields(qi, q["args"] if params else [])
    for t in exp.values():      # nested model types must be computable as well (may raise Skip)
        h.unspecified(t)
    tags = known_tags(h, case, exp, _envs)
    if any((defs[n], n) in h.lost_fields(qi) or h.touches_lost_field(t) for n, t in exp.items()):
        tags = sorted({*tags, "stale_orig_bases"})
    tagstr = "+".join(tags) or "-"
    cls = built["cls"][qi]
    labels_extra = []
    if not params or bare:
        tp = cls
    elif not q["args"]:
        tp = cls[()]
    else:
        ns = built["ns"]
        names = {"leaf": built["leaf"].__name__, "cls": [c.__name__ for c in built["cls"]]}
        qsrc = render(["gen", qi, q["args"]], names, "typing")
        mode = int(case.get("unpack_spelled") or 0)
        if mode and TVT in params:
            # spell a run of arguments as ONE unpacked tuple:  X[int, Unpack[Tuple[str, bool]]].  mode 1: exactly
            # the arguments binding the TypeVarTuple; 2: the whole list; 3 / 4: one more neighbour right / left
            # (the unpacked tuple then also feeds an ordinary TypeVar)
            lo = params.index(TVT)
            hi = lo + len(q["args"]) - (len(params) - 1)
            if mode == 2:
                lo, hi = 0, len(q["args"])
            elif mode == 3:
                hi = min(hi + 1, len(q["args"]))
            elif mode == 4:
                lo = max(lo - 1, 0)
            if hi > lo:
                parts = [render(a, names, "typing") for a in q["args"]]
                qsrc = (f"{names['cls'][qi]}[" + ", ".join(
                    [*parts[:lo], "Unpack[Tuple[" + ", ".join(parts[lo:hi]) + "]]", *parts[hi:]]) + "]")
                labels_extra.append("query_args_as_unpacked_tuple")
                if (lo, hi) != (params.index(TVT), params.index(TVT) + len(q["args"]) - (len(params) - 1)):
                    labels_extra.append("unpacked_tuple_feeds_plain_typevar")
        try:
            tp = eval(qsrc, ns)  # noqa: S307
        except TypeError:
            if not labels_extra:
                raise
            # typing itself refuses this spelling (an unpacked tuple counts as ONE argument when typing checks
            # the minimal number of arguments) -> use the plain spelling
            ctx.count("unpacked_spelling_rejected_by_python")
            labels_extra.clear()
            tp = eval(render(["gen", qi, q["args"]], names, "typing"), ns)  # noqa: S307

    labels, levels, permuted = structure_labels(h, case, defs, qi)
    labels += [f"kind:{kind}", f"debug:{case['debug']}", f"spelling:{case['spelling']}", *labels_extra]
    mod_labels, soft_used = module_labels(h, case, exp)
    labels += mod_labels
    if bare:
        labels.append("bare_query")
        for p in params:
            labels.append(f"bare_{tv_kind(p)}")
    elif params:
        labels.append("parametrised_query")
    else:
        labels.append("non_generic_query")
    if any(n[0] == "gen" for t in exp.values() for n in walk(t)):
        labels.append("nested_generic_model")
    if any(n[0] == "genbare" for t in exp.values() for n in walk(t)):
        labels.append("nested_bare_generic_model")
    labels += [f"known_class:{t}" for t in tags]
    unspec_fields = sorted(n for n, t in exp.items() if h.unspecified(t))
    if unspec_fields:
        labels.append("has_unspecified_field")
    distinct_tvs = {tv for i in [qi, *h.ancestors(qi)] for tv in h.params(i)}
    nontrivial = bool(exp) and (levels >= 2 or (len(distinct_tvs) >= 2 and permuted))
    key = [case["kind"], case["classes"], case["query"], case["bound"], case["constr"], case["debug"],
           case["spelling"], int(case.get("unpack_spelled") or 0) if TVT in params else 0,
           case.get("mods"), case.get("limsp")]
    ctx.case(key, nontrivial,
             sample={"kind": kind, "source": built["src"].split("\n\n", 1)[-1][-1500:], "query": repr(tp)[:200],
                     "expected": {n: repr(t) for n, t in exp.items()}, "labels": labels},
             labels=labels)

    tainted = h.behind_bare_base(qi)
    lost = h.lost_fields(qi)

    def origin(n):
        """Does the field's expected type come through one of the structures adaptix is known to mis-resolve?"""
        if n is None:
            return "no_trail"
        if n not in exp:
            return "unknown_field"
        if defs[n] in tainted or h.touches_bare_base(exp[n]):
            return "via_unresolved_base"
        if (defs[n], n) in lost or h.touches_lost_field(exp[n]):
            return "stale_orig_bases"
        return "regular"

    def viol(vkind, discr, detail, field="-"):
        org = "-" if field == "-" else origin(field)
        ctx.violation(vkind, (kind, tagstr, org, *discr), case,
                      f"{detail}\nquery={tp!r}\nexpected field types={exp!r}\n--- generated source ---\n"
                      + built["src"][-1200:])

    retort = Retort(debug_trail=DEBUG[case["debug"]], strict_coercion=True)
    loader = dumper = None
    for what in ("loader", "dumper"):
        try:
            if what == "loader":
                loader = retort.get_loader(tp)
            else:
                dumper = retort.get_dumper(tp)
        except ProviderNotFoundError as e:
            if unspec_fields:
                # some field type is not fixed by the docs, so nothing says it must be loadable at all
                ctx.count("unspecified_creation_refused_with_unspecified_field")
            elif soft_used:
                # an implicit parameter comes from a limit spelled in a way no document covers (soft_limit_kinds)
                ctx.count("unspecified_creation_refused_undocumented_limit_spelling")
            else:
                viol("creation_failed", (what, type(e).__name__, site(e)), describe(e))
        except Exception as e:  # noqa: BLE001 -- a foreign exception out of get_loader/get_dumper is never legitimate
            viol("creation_failed", (what, type(e).__name__, site(e)), describe(e))

    spec_fields = [n for n in exp if n not in unspec_fields]
    if unspec_fields:
        ctx.count("unspecified_field_types", len(unspec_fields))

    # ---------------------------------------------------------------- conforming data: load, compare, dump
    valid = None
    load_ok = loader is not None
    for v in case["variants"]:
        data = {}
        for k, (n, t) in enumerate(exp.items()):
            if n in unspec_fields:
                # Python-spec reading (Any / tuple of anything); acceptance is NOT asserted for these fields
                data[n] = [v, "u"] if t[0] == "tup" else v
            else:
                data[n] = make_data(h, t, v + k)
                if not conforms(h, data[n], t):
                    raise AssertionError(f"harness: make_data/conforms disagree on {t} {data[n]!r}")
        if valid is None:
            valid = data
        ctx.count("positive_probes")
        loaded = None
        if loader is not None:
            try:
                loaded = loader(data)
            except LoadError as e:
                trails = [tr for tr, _ in leaves(e)] if case["debug"] else []
                if unspec_fields and case["debug"] and trails and all(tr[:1] and tr[0] in unspec_fields
                                                                      for tr in trails):
                    ctx.count("unspecified_rejection_at_unspecified_field")
                    load_ok = False     # no baseline for the single-field probes
                elif unspec_fields and not case["debug"]:
                    ctx.count("unspecified_rejection_at_unspecified_field")
                    load_ok = False
                else:
                    first = next(iter(leaves(e)))
                    fname = first[0][0] if first[0] else None
                    viol("conforming_data_rejected",
                         (type(first[1]).__name__, "root") if fname is None else ("-", "field"),
                         f"data={data!r}\n{describe(e)}\nleaves={[(tr, describe(x)) for tr, x in leaves(e)][:4]}",
                         field=first[0][0] if first[0] else None)
                    return      # one root cause per case
            except Exception as e:  # noqa: BLE001
                viol("load_crashed", (type(e).__name__, site(e)), f"data={data!r}\n{describe(e)}")
                return
        if loaded is not None:
            for n in spec_fields:
                try:
                    fv = get_field(kind, loaded, n)
                except (AttributeError, KeyError, TypeError):
                    viol("loaded_object_lacks_field", (), f"data={data!r} loaded={loaded!r} field={n}")
                    load_ok = False
                    break
                r = value_matches(h, fv, exp[n], data[n])
                if r:
                    viol("loaded_value_differs", (exp[n][0],), f"field {n}: {r}\ndata={data!r}\nloaded={loaded!r}",
                         field=n)
                    load_ok = False
                    break
        if dumper is not None and not unspec_fields:
            objs = []
            if loaded is not None:
                objs.append(("loaded", loaded))
            qt = ["gen", qi, q["args"]] if (params and not bare) else ["genbare", qi]
            objs.append(("constructed", construct(h, qt, data)))
            for what, obj in objs:
                try:
                    out = dumper(obj)
                except Exception as e:  # noqa: BLE001
                    viol("dump_wrong", (f"crashed:{type(e).__name__}:{site(e)}",),
                         f"{what} object={obj!r}\n{describe(e)}")
                    break
                if not same_data(out, data):
                    viol("dump_wrong", (f"differs:{type(out).__name__}",),
                         f"{what} object={obj!r}\ndumped={out!r}\nexpected={data!r}")
                    break
    if not load_ok or valid is None:
        return      # one root cause per case: the single-field probes below presuppose a working loader

    # ---------------------------------------------------------------- data fitting only another substitution
    pool = [["int"], ["str"], ["bool"], ["none"], ["list", ["int"]], ["leaf"], ["list", ["str"]], ["list", ["leaf"]]]
    if "decoy" in case_mods(case)["foreign"] and (case.get("limsp") or {}):
        # data fitting what ANOTHER module calls by the name used in a string-spelled bound / constraint
        pool = [["decoy"], ["list", ["decoy"]], *pool]
    v0 = case["variants"][0]
    total = 0
    for n in spec_fields:
        e_t = exp[n]
        d = defs[n]
        ann = next(f["ann"] for f in h.classes[d]["fields"] if f["name"] == n)
        cands = []
        tvs = sorted(set(free_tvars(ann)))
        for r in range(len(pool)):
            if not tvs:
                break
            alt_env = {}
            for k, tv in enumerate(tvs):
                alt = pool[(r + k * 3) % len(pool)]
                alt_env[tv] = [alt] if tv == TVT else alt
            cands.append(("rebinding", subst(ann, alt_env)))
        for k in h.mro(qi):
            if k != d and n in h.own_names(k):
                pann = next(f["ann"] for f in h.classes[k]["fields"] if f["name"] == n)
                try:
                    cands.append(("overridden_parent", subst(pann, _envs[k])))
                except KeyError:
                    pass
        for p in pool:
            cands.append(("pool", p))
        seen = set()
        per_field = 0
        for why, alt_t in cands:
            if per_field >= 7 or total >= 24 or h.unspecified(alt_t):
                continue
            bad = make_data(h, alt_t, v0 + 1)
            sig = repr(bad)
            if sig in seen:
                continue
            seen.add(sig)
            fits = conforms(h, bad, e_t)
            probe = dict(valid)
            probe[n] = bad
            per_field += 1
            total += 1
            ctx.count("negative_probes" if not fits else "cross_positive_probes")
            role = "overriding" if sum(1 for k in h.mro(qi) if n in h.own_names(k)) > 1 else (
                "own" if d == qi else "inherited")
            try:
                loader(probe)
            except LoadError as e:
                if fits:
                    viol("conforming_data_rejected", (type(e).__name__, "cross", role),
                         f"field {n} expected {e_t!r}; datum {bad!r} conforms\n{describe(e)}", field=n)
                    return
                if case["debug"]:
                    trails = [tr for tr, _ in leaves(e)]
                    if unspec_fields:
                        trails = [tr for tr in trails if not (tr[:1] and tr[0] in unspec_fields)]
                    if not trails or any(tr[:1] != (n,) for tr in trails):
                        viol("wrong_error_trail", (role,),
                             f"field {n} expected {e_t!r}; datum {bad!r}; trails={trails!r}\n{describe(e)}", field=n)
                        return
                continue
            except Exception as e:  # noqa: BLE001
                viol("load_crashed", (type(e).__name__, site(e)), f"probe={probe!r}\n{describe(e)}")
                return
            if not fits:
                viol("nonconforming_data_accepted", (role, why),
                     f"field {n} (defined in class {d}) expected {e_t!r}; datum {bad!r} built for {alt_t!r} "
                     f"was accepted\nprobe={probe!r}", field=n)
                return


# =================================================================================== strategies
_RANGES = {}


def _range(n):
    r = _RANGES.get(n)
    if r is None:
        r = _RANGES[n] = st.sampled_from(range(n))
    return r


_R12 = _range(12)


def chance(draw, num, den):
    # "interesting" outcome first is not needed here: the value is compared, not used
    return draw(_range(den)) >= den - num


_CLOSED = {}


def st_closed(depth=1):
    if depth not in _CLOSED:
        _CLOSED[depth] = _st_closed(depth)
    return _CLOSED[depth]


def _st_closed(depth):
    base = st.sampled_from([["int"], ["str"], ["bool"], ["none"], ["leaf"], ["list", ["int"]], ["leaf"], ["int"],
                            ["str"]])
    if depth <= 0:
        return base
    inner = st_closed(depth - 1)
    return st.one_of(
        base, base,
        inner.map(lambda t: ["list", t]),
        inner.map(lambda t: ["opt", t]),
        inner.map(lambda t: ["dict", t]),
        st.lists(inner, min_size=1, max_size=2).map(lambda ts: ["tup", ts]),
    )


@st.composite
def st_args_for(draw, case_ctx, j, own_params, closed: bool, allow_known: bool):
    """Type arguments for class j.  Open arguments are over ``own_params``."""
    params = case_ctx["params"][j]
    kind = case_ctx["kind"]
    args = []
    for p in params:
        k = tv_kind(p)
        if k == "tvt":
            n = draw(st.sampled_from([0, 1, 1, 2, 2]))
            items = []
            spliced = False
            for _ in range(n):
                if not closed and TVT in own_params and not spliced and chance(draw, 2, 3):
                    items.append(["unpack", TVT])
                    spliced = True
                else:
                    items.append(draw(st_open(case_ctx, own_params, 1, j, closed, allow_known)))
            if not allow_known:
                if params == [TVT] and not items:
                    items.append(draw(st_open(case_ctx, own_params, 0, j, closed, allow_known)))
                if kind in ("namedtuple", "pydantic"):
                    # keep the total number of arguments away from exactly one
                    while len(params) - 1 + len(items) == 1 or any(x[0] == "unpack" for x in items):
                        items = [x for x in items if x[0] != "unpack"]
                        items.append(draw(st_open(case_ctx, own_params, 0, j, closed, allow_known)))
            args.extend(items)
        elif k == "bound":
            args.append(["tv", "B0"] if (not closed and "B0" in own_params and draw(st.booleans()))
                        else case_ctx["bound"])
        elif k == "constr":
            args.append(["tv", "K0"] if (not closed and "K0" in own_params and draw(st.booleans()))
                        else draw(st.sampled_from(case_ctx["constr"])))
        else:
            args.append(draw(st_open(case_ctx, own_params, 1, j, closed, allow_known)))
    return args


@st.composite
def st_open(draw, case_ctx, own_params, depth, upto, closed, allow_known):
    """An annotation over ``own_params`` (closed=True: no type variables).  ``upto``: generic references may
    only point to classes with a smaller index."""
    plain_like = [p for p in own_params if p != TVT]
    choice = draw(_range(20))
    if not closed and plain_like and choice < 9:
        return ["tv", draw(st.sampled_from(plain_like))]
    if not closed and plain_like and choice < 14 and depth > 0:
        inner = ["tv", draw(st.sampled_from(plain_like))]
        w = draw(_range(6))
        if w == 0:
            return ["list", inner]
        if w == 1:
            return ["opt", inner]
        if w == 2:
            return ["dict", inner]
        if w == 4:
            # under the builtin spelling this is ``list[T] | None``: a types.UnionType whose member holds the variable
            return ["opt", ["list", inner]]
        if w == 5:
            return ["opt", ["dict", inner]] if draw(st.booleans()) else ["opt", ["tup", [inner, draw(st_closed(0))]]]
        other = draw(st_closed(0))
        return ["tup", [inner, other] if draw(st.booleans()) else [other, inner]]
    if not closed and TVT in own_params and choice < 16 and depth > 0:
        items = [["unpack", TVT]]
        if draw(st.booleans()):
            items.insert(draw(st.sampled_from([0, 1])), draw(st_closed(0)))
        return ["tup", items]
    targets = [j for j in range(upto) if _gen_ref_allowed(case_ctx, j, allow_known)]
    if targets and choice >= 17 and depth > 0:
        j = draw(st.sampled_from(targets))
        if case_ctx["params"][j] and chance(draw, 1, 5) and _bare_ref_allowed(case_ctx, j, allow_known):
            return ["genbare", j]
        sub_closed = closed or case_ctx["kind"] == "pydantic"
        if not case_ctx["params"][j]:
            return ["genbare", j]
        args = draw(st_args_for(case_ctx, j, own_params, sub_closed, allow_known))
        if not allow_known and case_ctx["params"][j] == [TVT] and args == [["unpack", TVT]]:
            # X[*Ts] as a *type* becomes X[*tuple[Any, ...]] when the enclosing class is used bare: the known
            # crash of the bare variadic-only generic -> keep the argument list non-degenerate
            args = [*args, draw(st_closed(0))]
        return ["gen", j, args]
    return draw(st_closed(min(depth, 1)))


def _gen_ref_allowed(case_ctx, j, allow_known):
    params = case_ctx["params"][j]
    if case_ctx["kind"] == "pydantic" and not params:
        return True
    if allow_known:
        return True
    if case_ctx["kind"] in ("namedtuple", "pydantic") and len(params) == 1 and TVT not in params:
        return False
    return True


def _bare_ref_allowed(case_ctx, j, allow_known):
    if case_ctx["kind"] == "pydantic":
        # pydantic itself parametrises a bare generic annotation inside a generic model with the outer
        # arguments ("there are some bugs in generic resolving inside pydantic itself") -> avoided
        return False
    if allow_known:
        return True
    params = case_ctx["params"][j]
    if params == [TVT]:
        return False
    return not (case_ctx["kind"] == "namedtuple" and len(params) == 1)


def _symbolically_consistent(case_ctx, classes, params, bases):
    tmp = {"kind": case_ctx["kind"], "bound": case_ctx["bound"], "constr": case_ctx["constr"],
           "classes": [*classes, {"params": params, "bases": bases, "fields": [], "explicit": True}]}
    ident = {p: ([["unpack", TVT]] if p == TVT else ["tv", p]) for p in params}
    try:
        Hier(tmp, None).envs(len(classes), ident)
    except Skip:
        return False
    return True


FIELD_NAMES = ["a", "b", "c", "d", "e"]


@st.composite
def st_case(draw):  # noqa: C901, PLR0912, PLR0915
    # Hypothesis fills the tail of a long draw sequence with its simplest choice, so the scalar options are drawn
    # FIRST (otherwise debug mode 0 / spelling "typing" / bare queries are heavily over-represented).
    kind = draw(st.sampled_from(["dataclass", "attrs", "typeddict", "dataclass", "attrs", "typeddict",
                                 "namedtuple", "pydantic"]))
    debug = draw(st.sampled_from([2, 1, 0]))
    spelling = draw(st.sampled_from(["builtin", "typing"]))
    variants = [draw(_R12), draw(_R12)]
    slots = draw(st.booleans())
    bare_query = chance(draw, 1, 5)
    unpack_spelled = draw(st.sampled_from([0, 2, 1, 3, 4, 0]))
    deep_query = chance(draw, 5, 6)
    # known defect classes (known_findings.d/C16.json) are avoided by construction for 15/16 of the budget;
    # C16_PROBE_KNOWN=1 lifts the exclusion completely (use it to re-test after a fix)
    allow_known = chance(draw, 1, 16) or os.environ.get("C16_PROBE_KNOWN") == "1"
    diamond_mode = kind in ("dataclass", "attrs", "typeddict") and chance(draw, 1, 5)
    bound = draw(st.sampled_from([["int"], ["str"], ["leaf"], ["list", ["int"]], ["bool"], ["list", ["leaf"]]]))
    constr = draw(st.sampled_from([[["str"], ["bool"]], [["int"], ["none"]], [["int"], ["str"]],
                                   [["bool"], ["none"], ["str"]]]))
    use_tvt = kind != "pydantic" and chance(draw, 3, 10)
    use_limited = chance(draw, 1, 2)
    # ---- where things are declared, and how the limits of B0 / K0 are spelled (drawn early, see above)
    nm = draw(st.sampled_from([2, 1, 3, 2, 1]))
    mods = None
    if nm > 1:
        mods = {"n": nm,
                "tv": {tv: draw(_range(nm)) for tv in ALL_TV},
                "cls": [draw(_range(nm)) for _ in range(5)],
                "leaf": draw(_range(nm)),
                "foreign": [draw(st.sampled_from(["decoy", "absent", "same", "decoy"])) for _ in range(nm)]}
    limsp = {"bound": draw(st.sampled_from(["str", "real", "fwd", "real", "str", "inner"])),
             "constr": draw(st.sampled_from(["fwd", "real", "fwd", "real", "str"]))}
    if limsp["bound"] == "inner" and bound[0] in ATOMS:
        limsp["bound"] = "str"      # no container to put the string into: the same source text as "str"
    if kind == "pydantic":
        # pydantic resolves the limits of a TypeVar itself, in the namespace of the MODEL's module, while it builds
        # the class (a name that is absent there leaves the class "not fully defined", a decoy makes pydantic's own
        # validator check for the decoy) -> for pydantic the names mean the same everywhere, and no spelling that
        # pydantic may not be able to read
        if mods:
            mods["foreign"] = ["same"] * nm
        limsp = {"bound": limsp["bound"] if limsp["bound"] != "inner" else "real",
                 "constr": "real"}
    soft = soft_limit_kinds({"bound": bound, "limsp": limsp})
    steered_limsp = False
    if soft and os.environ.get("C16_PROBE_SOFT") != "1":
        # undocumented spellings that the implicit-parameter path of the unchanged tree does not resolve (finding
        # "unresolved limits" in notes/C16.md: ProviderNotFoundError or a raw ValueError) -> the nearest spelling
        # that is resolved; C16_PROBE_SOFT=1 lifts the exclusion
        if "bound" in soft:
            limsp["bound"] = "str"
        if "constr" in soft:
            limsp["constr"] = "fwd"
        steered_limsp = True
    if limsp == {"bound": "real", "constr": "real"}:
        limsp = None
    elif not use_limited and chance(draw, 2, 3):
        use_limited = True      # a spelling only matters when B0 / K0 are in the pool
    if limsp and use_limited and not bare_query:
        bare_query = chance(draw, 1, 4)     # ... and when something is used bare
    tv_pool = list(PLAIN_TV) + (["B0", "K0"] if use_limited else []) + ([TVT] if use_tvt else [])
    if diamond_mode:
        ncls = draw(st.sampled_from([4, 4, 5]))
    else:
        ncls = draw(st.sampled_from([2, 2, 1, 3] if kind == "pydantic" else [3, 2, 4, 5, 3, 4, 1, 5]))
    case_ctx = {"kind": kind, "params": [], "bound": bound, "constr": constr}
    classes = []
    anc = []           # ancestors (transitive) per class
    names_of = []      # all field names visible in a class (own + inherited)
    for i in range(ncls):
        # ---- parameters (a permutation of a subset of the pool; at most one TypeVarTuple by construction)
        nparams = draw(st.sampled_from([2, 1, 2, 3, 1, 2, 0] if i == 0 else [2, 1, 0, 3, 1, 2, 0, 2]))
        if diamond_mode and i == 0 and nparams == 0:
            nparams = 1
        nparams = min(nparams, len(tv_pool))
        params = draw(st.lists(st.sampled_from(tv_pool), min_size=nparams, max_size=nparams, unique=True))
        if use_tvt and TVT not in params and params and chance(draw, 1, 2):
            params[draw(st.sampled_from(range(len(params))))] = TVT     # keep variadic classes well represented
        if diamond_mode and i == 2:
            params = list(classes[1]["params"])      # the two arms of the diamond have the same parameters
        if kind in ("namedtuple", "pydantic") and not allow_known:
            while len(params) == 1 or (TVT in params):
                params = [p for p in params if p != TVT]
                for cand in PLAIN_TV:
                    if cand not in params and len(params) < 2:
                        params.append(cand)
        # ---- bases
        bases = []
        if diamond_mode and i == 2:
            bases = [{"cls": b["cls"], "args": b["args"]} for b in classes[1]["bases"]]
        elif i > 0 and kind != "pydantic":
            if diamond_mode and i == 1:
                chosen = [0]
            elif diamond_mode and i == 3:
                chosen = [1, 2] if draw(st.booleans()) else [2, 1]
            else:
                nb = 1 if kind == "namedtuple" else draw(st.sampled_from([1, 2, 1, 2, 0, 1, 3, 2, 0, 2]))
                cands = list(range(i))
                if kind == "namedtuple":
                    cands = [i - 1] if draw(st.booleans()) else cands
                nb = min(nb, len(cands))
                chosen = draw(st.lists(st.sampled_from(cands), min_size=nb, max_size=nb, unique=True)) if nb else []
                # never list an ancestor together with its descendant (redundant, mostly MRO errors)
                chosen = [j for j in chosen if not any(j in anc[k] for k in chosen if k != j)]
            for j in chosen:
                pj = case_ctx["params"][j]
                # (TypedDict classes always get their own __orig_bases__, bare bases work there -> always allowed)
                if pj and (allow_known or kind == "typeddict") and chance(draw, 1, 3 if allow_known else 6):
                    bases.append({"cls": j, "args": None})
                    continue
                args = draw(st_args_for(case_ctx, j, params, False, allow_known)) if pj else None
                if bases and pj and (chance(draw, 2, 3) or (diamond_mode and i == 3)):
                    # bias towards consistent diamonds: reuse the arguments given to a previous base of equal
                    # parameters
                    for pb in bases:
                        if pb["args"] is not None and case_ctx["params"][pb["cls"]] == pj:
                            args = pb["args"]
                            break
                bases.append({"cls": j, "args": args})
                if len(bases) > 1 and not _symbolically_consistent(case_ctx, classes, params, bases):
                    bases.pop()      # this base would bind a shared ancestor differently: not a valid diamond
        if not allow_known and kind != "typeddict" and len(bases) > 1 and not params \
                and all(b["args"] is None for b in bases):
            # no generic alias among the bases -> the class has no __orig_bases__ of its own and adaptix resolves
            # it through the first base only (known finding): keep a single base
            bases = bases[:1]
        my_anc = set()
        for b in bases:
            my_anc |= {b["cls"]} | anc[b["cls"]]
        inherited = set()
        for j in my_anc:
            inherited |= {f["name"] for f in classes[j]["fields"]}
        # ---- explicit Generic[...]?  Without it Python collects the parameters from the bases in order of
        # first appearance; that is only possible when every parameter occurs in some base argument.
        collected = []
        for b in bases:
            for a in (b["args"] or []):
                for tv in free_tvars(a):
                    if tv not in collected:
                        collected.append(tv)
        explicit = True
        if not set(collected) <= set(params):
            if diamond_mode and i == 2:
                params = collected + [p for p in params if p not in collected]
            else:
                raise AssertionError("harness: base arguments use foreign variables")
        if bases and set(collected) == set(params) and params and draw(st.booleans()):
            explicit = False
            params = collected
        case_ctx["params"].append(params)
        # ---- fields
        fields = []
        if kind == "namedtuple" and bases:
            nf = 0
        else:
            nf = draw(st.sampled_from([1, 2, 0, 1, 2, 3])) if bases else draw(st.sampled_from([2, 1, 2, 1, 3]))
        used = set()
        for k in range(nf):
            if kind in ("typeddict", "namedtuple", "pydantic"):
                name = f"f{i}{k}"          # unique in the hierarchy: overriding is not expressible / not allowed
            else:
                name = draw(st.sampled_from(FIELD_NAMES))
                if name in used:
                    continue
                if name in inherited and chance(draw, 1, 3):
                    name = f"f{i}{k}"
            used.add(name)
            ann = draw(st_open(case_ctx, params, 1, i, False, allow_known))
            if not allow_known and name in inherited and ann[0] == "genbare" and case_ctx["params"][ann[1]]:
                # an inherited member re-annotated with a *bare generic class* is lost again in a ground
                # subclass (known finding, stale __orig_bases__) -> wrap it, the override itself stays
                ann = ["opt", ann]
            fld = {"name": name, "ann": ann}
            if not any(t == ["unpack", TVT] for t in _walk_ann(ann)) and chance(draw, 1, 5):
                fld["wrap"] = "annotated"
            fields.append(fld)
        classes.append({"params": params, "bases": bases, "fields": fields, "explicit": explicit})
        anc.append(my_anc)
        names_of.append(inherited | used)
    # ---- query
    eligible = list(range(ncls))
    if not allow_known:
        def ok(j):
            p = classes[j]["params"]
            return not (kind in ("namedtuple", "pydantic") and (len(p) == 1 or TVT in p))
        eligible = [j for j in eligible if ok(j)] or [0]
    with_fields = [j for j in eligible if names_of[j]] or eligible
    deep = [j for j in with_fields if anc[j]] or with_fields
    if diamond_mode and 3 in deep and chance(draw, 3, 4):
        qi = draw(st.sampled_from([j for j in deep if j >= 3]))
    else:
        qi = draw(st.sampled_from(list(reversed(deep if deep_query else with_fields))))
    qparams = classes[qi]["params"]
    if qparams and bare_query and (allow_known or qparams != [TVT]):
        qargs = None
    else:
        qargs = draw(st_args_for(case_ctx, qi, [], True, allow_known)) if qparams else None
    if mods:
        mods["cls"] = mods["cls"][:ncls]
    return {
        **({"mods": mods} if mods else {}), **({"limsp": limsp} if limsp else {}),
        **({"steered_limsp": True} if steered_limsp else {}),
        "iter_dunder": chance(draw, 1, 6),
        "kind": kind, "spelling": spelling, "bound": bound, "constr": constr,
        "classes": classes, "query": {"cls": qi, "args": qargs}, "debug": debug,
        "variants": variants, "slots": slots, "unpack_spelled": unpack_spelled, "steered": not allow_known,
    }


# =================================================================================== fixed cases
def _c(kind, classes, query, **kw):
    base = {"kind": kind, "spelling": "typing", "bound": ["int"], "constr": [["str"], ["bool"]], "classes": classes,
            "query": query, "debug": 2, "variants": [0, 5], "slots": True, "steered": False}
    base.update(kw)
    return base


def fixed_cases():
    tv = lambda n: ["tv", n]  # noqa: E731
    one = [{"params": ["T0"], "bases": [], "fields": [{"name": "f00", "ann": tv("T0")}], "explicit": True}]
    # the suspected IterableProvider capture (DESIGN.md section 5): one type argument, NamedTuple / pydantic
    for kind in ("namedtuple", "pydantic", "dataclass", "attrs", "typeddict"):
        yield _c(kind, one, {"cls": 0, "args": [["int"]]})
        yield _c(kind, one, {"cls": 0, "args": None})
    # a bare generic base
    par = {"params": ["T0"], "bases": [], "fields": [{"name": "a", "ann": tv("T0")}], "explicit": True}
    child = {"params": [], "bases": [{"cls": 0, "args": None}], "fields": [{"name": "b", "ann": ["int"]}],
             "explicit": True}
    yield _c("dataclass", [par, child], {"cls": 1, "args": None})
    yield _c("attrs", [par, child], {"cls": 1, "args": None})
    yield _c("typeddict", [par, child], {"cls": 1, "args": None})       # works: TypedDict has its own __orig_bases__
    # (b) a ground subclass loses its parent's re-annotation;  (c) the side of a second ground base is lost
    two = {"params": ["T0"], "bases": [], "explicit": True,
           "fields": [{"name": "a", "ann": tv("T0")}, {"name": "b", "ann": tv("T0")}]}
    over = {"params": [], "bases": [{"cls": 0, "args": [["int"]]}], "explicit": True,
            "fields": [{"name": "a", "ann": ["genbare", 0]}]}
    sub = {"params": [], "bases": [{"cls": 1, "args": None}], "fields": [], "explicit": True}
    other = {"params": ["T1"], "bases": [], "fields": [{"name": "x", "ann": tv("T1")}], "explicit": True}
    c1 = {"params": [], "bases": [{"cls": 0, "args": [["int"]]}], "fields": [], "explicit": True}
    c2 = {"params": [], "bases": [{"cls": 1, "args": [["str"]]}], "fields": [], "explicit": True}
    both = {"params": [], "bases": [{"cls": 2, "args": None}, {"cls": 3, "args": None}], "fields": [], "explicit": True}
    for kind in ("dataclass", "attrs"):
        yield _c(kind, [two, over, sub], {"cls": 2, "args": None}, slots=False)
        yield _c(kind, [par, other, c1, c2, both], {"cls": 4, "args": None}, slots=False)
    # only a TypeVarTuple: bare / empty
    var = [{"params": [TVT], "bases": [], "fields": [{"name": "a", "ann": ["tup", [["unpack", TVT]]]},
                                                     {"name": "b", "ann": ["int"]}], "explicit": True}]
    yield _c("dataclass", var, {"cls": 0, "args": None})
    yield _c("dataclass", var, {"cls": 0, "args": []})
    yield _c("dataclass", var, {"cls": 0, "args": [["int"], ["str"]]})
    # classics: partial binding + permutation + override through three levels
    g = {"params": ["T0", "T1"], "bases": [], "explicit": True,
         "fields": [{"name": "a", "ann": tv("T0")}, {"name": "b", "ann": ["list", tv("T1")]}]}
    p = {"params": ["T1", "T0"], "bases": [{"cls": 0, "args": [tv("T1"), ["str"]]}], "explicit": True,
         "fields": [{"name": "c", "ann": ["opt", tv("T0")]}]}
    ch = {"params": ["T0"], "bases": [{"cls": 1, "args": [["leaf"], tv("T0")]}], "explicit": False,
          "fields": [{"name": "a", "ann": ["dict", tv("T0")]}]}
    for kind in ("dataclass", "attrs"):
        for dbg in (0, 1, 2):
            yield _c(kind, [g, p, ch], {"cls": 2, "args": [["bool"]]}, debug=dbg)
            yield _c(kind, [g, p, ch], {"cls": 1, "args": [["int"], ["none"]]}, debug=dbg)
            yield _c(kind, [g, p, ch], {"cls": 2, "args": None}, debug=dbg)


def module_table():
    """Exhaustive side table of the module dimension for the implicit parameters (same oracle, ``check_case``):
    model kind x limited variable (bound / constraints, two limits each) x spelling x meaning of the limit names in
    the model's module(s) x the place of the bare use.  Module 0 declares the type variables and the helper model."""
    tv = lambda n: ["tv", n]  # noqa: E731
    soft_too = os.environ.get("C16_PROBE_SOFT") == "1"
    variables = [("B0", {"bound": b}, "bound", sp) for b in (["leaf"], ["list", ["leaf"]])
                 for sp in ("str", "fwd", *(["inner"] if soft_too else []))]
    variables += [("K0", {"constr": c}, "constr", sp) for c in ([["int"], ["str"]], [["leaf"], ["bool"]])
                  for sp in ("fwd", *(["str"] if soft_too else []))]
    for kind in ("dataclass", "attrs", "typeddict", "namedtuple"):
        for var, limits, which, sp in variables:
            if kind == "typeddict" and which == "constr" and ["leaf"] in limits["constr"]:
                # docs (Union): "Dumper finds appropriate dumper using object type" -- a TypedDict value is a plain
                # dict, so a TypedDict model cannot be a member of a dumped Union
                limits = {"constr": [["none"], ["bool"]]}
            probe = {"kind": kind, "bound": ["int"], "constr": [["str"], ["bool"]], **limits, "limsp": {which: sp}}
            if soft_limit_kinds(probe) and not soft_too:
                continue
            g = {"params": [var, "T1"], "bases": [], "explicit": True,
                 "fields": [{"name": "f00", "ann": tv(var)}, {"name": "f01", "ann": ["list", tv(var)]},
                            {"name": "f02", "ann": tv("T1")}]}
            child = {"params": [var], "bases": [{"cls": 0, "args": [tv(var), ["str"]]}], "explicit": False,
                     "fields": [] if kind == "namedtuple" else [{"name": "f10", "ann": ["opt", tv(var)]}]}
            holder = {"params": [], "bases": [], "explicit": True,
                      "fields": [{"name": "f20", "ann": ["genbare", 0]}, {"name": "f21", "ann": ["list", ["genbare", 0]]}]}
            for mode in ("decoy", "absent", "same"):
                shapes = [
                    ([g], [1], 0, ["same", mode]),                        # the generic itself, bare
                    ([g, child], [1, 2], 1, ["same", "same", mode]),      # bare child threading the variable up
                    ([g, child], [1, 2], 1, ["same", mode, "same"]),      # ... the PARENT's module differs
                    ([g, holder], [1, 2], 1, ["same", mode, "same"]),     # bare inside an annotation of a third module
                    ([g, holder], [1, 2], 1, ["same", "same", mode]),
                    ([g], [0], 0, ["same", mode]),                        # everything in the variable's own module
                ]
                seen = []
                for classes, homes, qi, foreign in shapes:
                    if (classes, homes, foreign) in seen:
                        continue        # mode "same": some rows coincide
                    seen.append((classes, homes, foreign))
                    nm = len(foreign)
                    yield _c(kind, classes, {"cls": qi, "args": None}, **limits, limsp={which: sp},
                             mods={"n": nm, "tv": {t: (0 if t in (var, "T1") else nm - 1) for t in ALL_TV},
                                   "cls": homes, "leaf": 0, "foreign": foreign})


# ------------------------------------------------------------------------------------ InitVar[T]: an input-only member
_INITVAR_SRC = """
from dataclasses import dataclass, InitVar
from typing import Generic, TypeVar, List, Optional, Dict
T = TypeVar("T"); K = TypeVar("K")

@dataclass
class G(Generic[T]):
    a: T
    seed: InitVar[T]
    lst: InitVar[List[T]]
    opt: InitVar[Optional[Dict[str, T]]]
    def __post_init__(self, seed, lst, opt):
        self.seen = (seed, lst, opt)

@dataclass
class Ground(G[int]):
    pass

@dataclass
class Open(G[K], Generic[K]):
    pass

@dataclass
class Two(Generic[T, K]):
    x: InitVar[Dict[K, T]]
    def __post_init__(self, x):
        self.seen = x
"""
_INITVAR_NS: dict = {}
INITVAR_PROBES = [
    # query, datum, expected: ("ok", seen) or "load_error"
    ("G[int]", {"a": 1, "seed": 2, "lst": [3], "opt": {"k": 4}}, ("ok", (2, [3], {"k": 4}))),
    ("G[int]", {"a": 1, "seed": "x", "lst": [3], "opt": None}, "load_error"),
    ("G[int]", {"a": 1, "seed": 2, "lst": ["x"], "opt": None}, "load_error"),
    ("G[int]", {"a": 1, "seed": 2, "lst": [3], "opt": {"k": "x"}}, "load_error"),
    ("G[str]", {"a": "q", "seed": "x", "lst": ["y"], "opt": None}, ("ok", ("x", ["y"], None))),
    ("G[str]", {"a": "q", "seed": 1, "lst": ["y"], "opt": None}, "load_error"),
    ("G", {"a": 1, "seed": "x", "lst": [None], "opt": {"k": b"b"}}, ("ok", ("x", [None], {"k": b"b"}))),
    ("Ground", {"a": 1, "seed": 2, "lst": [3], "opt": None}, ("ok", (2, [3], None))),
    ("Ground", {"a": 1, "seed": "x", "lst": [3], "opt": None}, "load_error"),
    ("Open[str]", {"a": "q", "seed": "x", "lst": ["y"], "opt": {"k": "v"}}, ("ok", ("x", ["y"], {"k": "v"}))),
    ("Open[str]", {"a": "q", "seed": "x", "lst": [1], "opt": None}, "load_error"),
    ("Two[int, str]", {"x": {"k": 1}}, ("ok", {"k": 1})),
    ("Two[int, str]", {"x": {1: "k"}}, "load_error"),
]


def check_initvar(ctx: runner.Ctx, case):
    if not _INITVAR_NS:
        exec(compile(_INITVAR_SRC, "<c16 initvar>", "exec", dont_inherit=True), _INITVAR_NS)  # noqa: S102
    query, datum, expected = INITVAR_PROBES[case["initvar"]]
    tp = eval(query, _INITVAR_NS)  # noqa: S307
    ctx.case(["initvar", case["initvar"], case["debug"]], True, sample={"query": query, "datum": datum, "expected": repr(expected)},
             labels=["part:initvar"])
    try:
        obj = Retort(debug_trail=DEBUG[case["debug"]]).load(datum, tp)
        got = ("ok", obj.seen)
    except Exception as e:  # noqa: BLE001
        got = "load_error" if isinstance(e, LoadError) else describe(e)
    if got != expected:
        ctx.violation("initvar_member", (query.split("[")[0], "ok" if expected != "load_error" else "reject"), case,
                      f"load({datum!r}, {query}) with InitVar members typed by the class's variables: got {got!r}, expected {expected!r}")


def explore(ctx: runner.Ctx):
    if ctx.shard == 0:
        for case in fixed_cases():
            check_case(ctx, case)
    for k, case in enumerate(module_table()):
        if k % ctx.nshards == ctx.shard:        # the table is spread over the shards
            check_case(ctx, case)
    if ctx.shard == 0:
        ctx.mark_exhaustive("module table: 4 model kinds x bound/constraints (4 limits) x string / ForwardRef spelling "
                            "x limit names same / decoy / absent in the model's module x 6 places of the bare use")
        for i in range(len(INITVAR_PROBES)):
            for dbg in (0, 2):
                runner.guarded(ctx, lambda c: check_case(ctx, c), {"initvar": i, "debug": dbg})
    ctx.given(st_case(), lambda case: check_case(ctx, case), ctx.budget(6000, 100000))


RULE = ("cases = generated (hierarchy of <= 5 generic classes of one model kind spread over 1-3 modules, declaring "
        "module of every type variable, spelling of bound / constraints, query parametrisation or bare, "
        "debug_trail, two data variants); per case 2 conforming loads + field-wise comparison + 2x2 dumps and up to "
        "24 single-field probes with data built for another substitution. Non-trivial = the queried class has >= 2 "
        "inheritance levels, or >= 2 type variables used in a permuted order; distinct by (kind, class specs, "
        "query, bound/constraints, debug, spelling, module lay-out, limit spelling).")

if __name__ == "__main__":
    raise SystemExit(runner.main(
        PROP, explore=explore, check_case=check_case, strategy=st_case(), rule=RULE,
        assumptions=[
            "strict_coercion=True throughout (the pool types are mutually exclusive only under strict coercion)",
            "pydantic: single-level generic models only, no type variables inside nested generic pydantic models "
            "(docs/reference/integrations.rst: parametrized generic pydantic models do not expose type hints "
            "dunders; bugs in generic resolving inside pydantic itself)",
            "TypedDict members are never re-annotated in a subclass (PEP 589 forbids it); NamedTuple subclasses add "
            "no annotations; overrides inside diamonds where dataclasses and the MRO disagree are skipped",
            "unspecified (counted, not asserted): implicit parameter of a bare TypeVarTuple; bound/constrained "
            "variables behind a bare generic *base* (Python spec says Any, adaptix docs say bound/Union)",
            "string / ForwardRef limits of a TypeVar mean what the TypeVar's declaring module binds the names to "
            "(typing semantics; changelog: 'Fix ForwardRef evaluation inside bound of TypeVar'); forward references "
            "nested in a real container (bound=List['X']) and constraints given as plain strings (kept as str by "
            "Python 3.12) are not resolved by the implicit-parameter path of the unchanged tree and are not generated "
            "unless C16_PROBE_SOFT=1 (counted: excluded_undocumented_limit_spelling); pydantic: limit names mean the "
            "same in every module (pydantic resolves TypeVar limits itself in the model's module)",
        ],
    ))
