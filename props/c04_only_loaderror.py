"""C04 -- invalid input raises LoadError and nothing else.

Generated: (type spec over everything builtin, incl. models with list / nested layouts, provider variants such as
flag_by_member_names / datetime_by_timestamp / enum_by_name) x data soup (arbitrary data and near-valid mutations of
valid dumps) x 3 debug modes x 2 coercion modes.

Oracle: the call returns, or raises E with every node of the exception tree a LoadError
(``vkit.errors.valid_load_error``).  Second sentence of the property: with a user-supplied loader / validator
that raises ArithmeticError the escaping exception must NOT be classified as LoadError (bare exception or plain
ExceptionGroup containing it).
"""
from __future__ import annotations

import os
import re

from vkit import env, runner
from vkit.errors import all_nodes, describe, exc_site, first_foreign, valid_load_error

env.import_adaptix()

from hypothesis import strategies as st  # noqa: E402

from adaptix import (  # noqa: E402
    Chain,
    DebugTrail,
    P,
    Retort,
    date_by_timestamp,
    datetime_by_format,
    datetime_by_timestamp,
    enum_by_name,
    flag_by_member_names,
    loader,
    name_mapping,
    validator,
)
from adaptix.load_error import LoadError  # noqa: E402
from vkit import codec, soup, tspec  # noqa: E402

PROP = "C04"
DEBUG = [DebugTrail.DISABLE, DebugTrail.FIRST, DebugTrail.ALL]
GEN = tspec.TypeGen(max_depth=3, dumpable_unions=False, disjoint_unions=False, unhashable_set_elems=True)
GEN_NEAR = tspec.TypeGen(max_depth=3)   # for near-valid data the reference dump needs dumpable unions

PROVS = ["flag_names", "ts_datetime", "ts_date", "enum_name", "dt_format"]


def build_provs(names):
    out = []
    for n in names:
        if n == "flag_names":
            out.append(flag_by_member_names(allow_single_value=True, allow_duplicates=False))
        elif n == "ts_datetime":
            out.append(datetime_by_timestamp())
        elif n == "ts_date":
            out.append(date_by_timestamp())
        elif n == "enum_name":
            out.append(enum_by_name())
        elif n == "dt_format":
            out.append(datetime_by_format(fmt="%Y-%m-%d %H:%M"))
    return out


def model_names(t):
    return [s[1]["name"] for s in tspec.walk(t) if s[0] == "model"]


def _saturator(obj, extra):
    return None


def build_layouts(layouts, e):
    out = []
    for name, how in layouts.items():
        cls = e.classes[name]
        ms = e.specs[name]
        if how == "as_list":
            if all(f.get("d") is None for f in ms["fields"]):
                out.append(name_mapping(cls, as_list=True))
        elif how == "nested":
            out.append(name_mapping(cls, map={f["n"]: ("outer", ...) if i % 2 else ("lst", i // 2)
                                               for i, f in enumerate(ms["fields"]) if f.get("d") is None}))
        elif how == "nested_dict":
            out.append(name_mapping(cls, map={f["n"]: ("outer", ...) for i, f in enumerate(ms["fields"]) if i % 2}))
        elif how == "forbid":
            from adaptix import ExtraForbid  # noqa: PLC0415
            out.append(name_mapping(cls, extra_in=ExtraForbid()))
        elif how.startswith("extra_in_field:"):
            out.append(name_mapping(cls, extra_in=how.split(":", 1)[1]))   # unknown data is collected into a typed field
        elif how == "saturate":
            out.append(name_mapping(cls, extra_in=_saturator))   # unknown data is collected and handed to a function
        elif how == "kwargs":
            from adaptix import ExtraKwargs  # noqa: PLC0415
            out.append(name_mapping(cls, extra_in=ExtraKwargs()))
    return out


@st.composite
def st_case(draw):
    which = draw(st.integers(0, 9))
    near = which < 6
    model_root = which < 2   # the root is a model whose own container shape gets mutated
    near_layouts = {}
    if near:
        t = draw(GEN_NEAR.model_root_strategy() if model_root else GEN_NEAR.strategy())
        ref_layouts = {}
        for s_ in tspec.walk(t):
            if s_[0] == "model" and draw(st.integers(0, 2 if not (model_root and s_ is t) else 0)) == 0:
                ms = s_[1]
                how = draw(st.sampled_from(["as_list", "nested_dict", "forbid", "saturate"]))
                in_union = any(u[0] == "union" and any(tspec.strip(c) is s_ or tspec.strip(c) == s_ for c in u[1]) for u in tspec.walk(t))
                if how == "as_list" and (any(f.get("d") is not None for f in ms["fields"]) or in_union or not ms["fields"]):
                    how = "forbid"
                near_layouts[ms["name"]] = how
                if how == "as_list":
                    ref_layouts[ms["name"]] = {"as_list": True}
                elif how == "nested_dict":
                    ref_layouts[ms["name"]] = {"paths": {f["n"]: (("outer", tspec.model_key(f["n"])) if i % 2 else
                                                                  (tspec.model_key(f["n"]),)) for i, f in enumerate(ms["fields"])}}
        datum, ops = draw(soup.st_near_valid(t, layouts=ref_layouts, root_structure=model_root))
    else:
        t = draw(GEN.strategy())
        if tspec.has_set_node(t) and tspec.near_valid_possible(t) and draw(st.booleans()):
            # aimed data for sets, also for sets whose elements load to unhashable values: a near-valid dump of the
            # same type with lists in place of the sets
            datum, ops = draw(soup.st_near_valid(tspec.listify_sets(t)))
            ops = ["listified_sets", *ops]
        else:
            datum, ops = draw(soup.st_soup()), ["soup"]
    if draw(st.integers(0, 11)) == 0:
        # an int above the int-to-str digit limit (4300 digits) as a leaf or as a mapping key: anything that renders it
        # (a trail note, a message) fails with ValueError
        pos = [p for p in soup.positions(datum) if p]
        big = {"$": "pow10", "e": draw(st.sampled_from([4300, 5000])), "neg": draw(st.booleans())}
        datum = soup.set_at(datum, draw(st.sampled_from(pos)), big) if pos else big
        ops = [*ops, "bigint"] if ops != ["soup"] else ["soup+bigint"]
    provs = draw(st.lists(st.sampled_from(PROVS), max_size=2, unique=True)) if draw(st.integers(0, 3)) == 0 else []
    layouts = {}
    for n in model_names(t):
        if draw(st.integers(0, 3)) == 0:
            layouts[n] = draw(st.sampled_from(["as_list", "nested", "forbid", "saturate"]))  # ExtraKwargs: documented TypeError zone
    return {"t": t, "datum": datum, "ops": ops, "strict": draw(st.booleans()), "debug": draw(st.integers(0, 2)),
            "provs": provs if not near else [], "layouts": layouts if not near else near_layouts}


def datum_depth(v, d=0):
    if isinstance(v, list):
        return max([d] + [datum_depth(x, d + 1) for x in v])
    if isinstance(v, dict) and "v" in v and isinstance(v["v"], list):
        return max([d] + [datum_depth(x, d + 1) for x in v["v"]])
    return d


def _safe(fn, fallback):
    """Text of something that may contain an int without decimal text (see the pow10 value tag)."""
    try:
        return fn()
    except Exception:  # noqa: BLE001
        return f"<unrenderable: {fallback}>"


def _class_object_for_model(spec, v) -> bool:  # noqa: PLR0911
    """Does the datum hold a class object at a position where the type expects the container of a model?"""
    spec = tspec.strip(spec)
    tag = spec[0]
    if tag == "model":
        if isinstance(v, dict) and v.get("$") == "type":
            return True
        if isinstance(v, dict) and v.get("$") == "d":
            ftypes = {f["n"]: f["t"] for f in spec[1]["fields"]}
            return any(isinstance(k, str) and k in ftypes and _class_object_for_model(ftypes[k], x) for k, x in v["v"])
        return False
    if tag == "optional":
        return _class_object_for_model(spec[1], v)
    if tag == "union":
        return any(_class_object_for_model(c, v) for c in spec[1])
    items = v if isinstance(v, list) else v.get("v") if isinstance(v, dict) and isinstance(v.get("v"), list) else None
    if items is None:
        return False
    if tag in ("list", "set", "frozenset", "vtuple", "deque"):
        return any(_class_object_for_model(spec[1], x) for x in items)
    if tag == "abc":
        return any(_class_object_for_model(spec[2], x) for x in items)
    if tag == "tuple":
        return any(_class_object_for_model(s_, x) for s_, x in zip(spec[1], items))
    if tag in ("dict", "defaultdict", "mapping", "mutablemapping") and isinstance(v, dict) and v.get("$") in ("d", "custmap", "dictsub"):
        return any(isinstance(kv, list) and len(kv) == 2 and _class_object_for_model(spec[2], kv[1]) for kv in items)
    return False


def check_case(ctx: runner.Ctx, case):
    if case.get("user"):
        return check_user_case(ctx, case)
    t = case["t"]
    hint, e = tspec.build_type(t)
    recipe = build_provs(case.get("provs", [])) + build_layouts(case.get("layouts", {}), e)
    retort = Retort(recipe=recipe, strict_coercion=case["strict"], debug_trail=DEBUG[case["debug"]])
    try:
        ld = retort.get_loader(hint)
    except Exception as ex:  # noqa: BLE001  (creation is not C04's subject: only ProviderNotFoundError is expected)
        from adaptix import ProviderNotFoundError  # noqa: PLC0415
        if isinstance(ex, ProviderNotFoundError):
            ctx.count("loader_not_creatable")
            return
        raise
    datum = codec.build(case["datum"], e)
    outcome = "returned"
    exc = None
    # RecursionError belongs to the resource-exhaustion zone only when the datum can be deep for the type: an over-deep datum,
    # or a str fed to a recursive list-layout model (infinitely deep: 'a'[0] == 'a').  A shallow datum against a type without
    # recursion that exhausts the stack of a helper (the regex compiler on a deeply nested PATTERN) is an ordinary foreign error.
    deep_zone = datum_depth(case["datum"]) > 20 or tspec.contains(t, "ref")
    try:
        ld(datum)
    except RecursionError as ex:
        if deep_zone:
            ctx.count("recursion_error_skipped")
            return
        exc = ex
        outcome = "violation"
    except BaseException as ex:  # noqa: BLE001
        if deep_zone and any(isinstance(n, RecursionError) for n in all_nodes(ex)):
            # debug_trail=ALL collects the RecursionError of an over-deep datum into the group of an outer model
            ctx.count("recursion_error_skipped")
            return
        exc = ex
        outcome = "load_error" if valid_load_error(ex) else "violation"
    depth = datum_depth(case["datum"])
    nontrivial = outcome != "returned" or depth >= 2
    ctx.case([t, case["datum"], case["strict"], case["debug"], case.get("provs"), case.get("layouts")], nontrivial,
             sample={"type": tspec.text(t), "datum": case["datum"], "strict": case["strict"], "debug": case["debug"],
                     "outcome": outcome, "provs": case.get("provs"), "layouts": case.get("layouts")},
             labels=[f"outcome:{outcome}", f"debug:{case['debug']}", f"strict:{case['strict']}", f"top:{t[0]}",
                     "src:" + ("soup" if case["ops"] in (["soup"], ["soup+bigint"]) else "atheris" if case["ops"] == ["atheris"] else
                               "table" if case["ops"][:1] == ["table"] else
                               "model_root_structure" if str(case["ops"][:1]).startswith("['root:") else
                               f"near{min(len(case['ops']), 3)}"),
                     *[f"layout:{h}" for h in set((case.get("layouts") or {}).values())],
                     f"datum_depth:{min(depth, 4)}"])
    if outcome == "violation":
        foreign = first_foreign(exc)
        how = "bare" if foreign is exc else ("loaderror_group_with_foreign_leaf" if isinstance(exc, LoadError)
                                             else "plain_group")
        discr = (type(foreign).__name__, exc_site(foreign), how)
        if exc_site(foreign).startswith("<generated>:model_loader") and _class_object_for_model(t, case["datum"]):
            # a class object sits where the mapping (or sequence) of a model is expected
            discr = (*discr, "class_object_used_as_container")
        ctx.violation("non_loaderror", discr, case,
                      f"type={tspec.text(t)} strict={case['strict']} debug={case['debug']} provs={case.get('provs')} "
                      f"layouts={case.get('layouts')} datum={_safe(lambda: repr(datum), case['datum'])}: "
                      f"{_safe(lambda: describe(exc), type(exc).__name__)} / foreign: "
                      f"{_safe(lambda: describe(foreign), type(foreign).__name__)}")


# ------------------------------------------------------------------------------ user code raising non-LoadError
class _Boom(ArithmeticError):
    pass


def _boom(_):
    raise _Boom("user code failed")


USER_SHAPES = ["bare", "list", "dict_value", "dict_key", "tuple", "model_field", "optional", "union", "nested_model",
               "list_two"]


@st.composite
def st_user_case(draw):
    return {"user": True, "shape": draw(st.sampled_from(USER_SHAPES)), "how": draw(st.sampled_from(["loader", "validator",
            "chain_first"])), "strict": draw(st.booleans()), "debug": draw(st.integers(0, 2)),
            "also_bad": draw(st.booleans())}


import dataclasses  # noqa: E402
import typing  # noqa: E402


@dataclasses.dataclass
class Inner:
    x: int
    y: str = "d"


@dataclasses.dataclass
class Outer:
    inner: Inner
    z: str


def check_user_case(ctx: runner.Ctx, case):  # noqa: C901
    how = case["how"]
    if how == "loader":
        prov = loader(int, _boom)
    elif how == "validator":
        prov = validator(int, _boom)
    else:
        prov = loader(int, _boom, Chain.FIRST)
    retort = Retort(recipe=[prov], strict_coercion=case["strict"], debug_trail=DEBUG[case["debug"]])
    bad = case["also_bad"]   # a genuine LoadError elsewhere in the same datum
    shape = case["shape"]
    tp, datum = {
        "bare": (int, 1),
        "list": (typing.List[int], [1, 2]),
        "list_two": (typing.List[typing.Union[int, str]], [1, None] if bad else [1]),
        "dict_value": (typing.Dict[str, int], {"a": 1, **({1: 2} if bad else {})}),
        "dict_key": (typing.Dict[int, str], {1: "a", **({2: 3} if bad else {})}),
        "tuple": (typing.Tuple[int, str], (1, 2 if bad else "a")),
        "model_field": (Inner, {"x": 1, "y": 2 if bad else "a"}),
        "optional": (typing.Optional[int], 1),
        "union": (typing.Union[int, str], 1),
        "nested_model": (Outer, {"inner": {"x": 1}, "z": 1 if bad else "a"}),
    }[shape]
    exc = None
    try:
        retort.load(datum, tp)
    except BaseException as ex:  # noqa: BLE001
        exc = ex
    ctx.case(["user", shape, how, case["strict"], case["debug"], bad], True,
             sample={"user_code": how, "shape": shape, "debug": case["debug"], "with_real_fault": bad,
                     "escaped": type(exc).__name__ if exc else None},
             labels=["user_code", f"user_shape:{shape}"])
    if exc is None:
        if shape == "union" and how != "validator":
            ctx.count("user_error_swallowed_by_union_unspecified")
            return
        ctx.violation("user_error_lost", (shape, how, f"debug{case['debug']}"), case,
                      f"user code raised ArithmeticError but load returned normally (shape={shape})")
        return
    nodes = list(all_nodes(exc))
    has_boom = any(isinstance(n, _Boom) for n in nodes)
    if isinstance(exc, LoadError) and has_boom:
        ctx.violation("user_error_classified_as_loaderror", (shape, f"debug{case['debug']}", type(exc).__name__), case,
                      f"shape={shape} how={how} debug={case['debug']} also_bad={bad}: {describe(exc)}")
    elif not has_boom:
        if isinstance(exc, LoadError) and bad and case["debug"] != 2:
            ctx.count("real_fault_reported_first")  # FIRST/DISABLE may stop at the genuine LoadError
        elif isinstance(exc, LoadError) and shape in ("union", "list_two"):
            ctx.count("user_error_swallowed_by_union_unspecified")
        else:
            ctx.violation("user_error_lost", (shape, how, f"debug{case['debug']}", type(exc).__name__), case,
                          f"shape={shape} how={how}: escaping {describe(exc)} does not contain the user exception")


def atheris_stage(ctx: runner.Ctx, runs: int):
    """Coverage-guided stage (thorough tier): fuzz/c04_atheris.py in a subprocess per shard; every case it saves is
    re-run here through the ordinary oracle, so a verdict never depends on the fuzzing process itself."""
    import glob  # noqa: PLC0415
    import json  # noqa: PLC0415
    import shutil  # noqa: PLC0415
    import subprocess  # noqa: PLC0415
    import sys  # noqa: PLC0415
    script = os.path.join(env.VERIF_ROOT, "fuzz", "c04_atheris.py")
    probe = subprocess.run([sys.executable, "-c", "import sys; sys.path.append(%r); import atheris" % env.DEPS_DIR],  # noqa: S603
                           capture_output=True, check=False)
    if probe.returncode != 0:
        ctx.note("atheris is not importable: the coverage-guided stage was skipped")
        return
    out = os.path.join(env.VERIF_ROOT, "out", "atheris", f"C04_seed{ctx.base_seed}_shard{ctx.shard}")
    shutil.rmtree(out, ignore_errors=True)
    proc = subprocess.run([sys.executable, script, "--out", out, "--runs", str(runs), "--seed", str(ctx.seed % 2 ** 31),  # noqa: S603
                           "--table-seed", str(ctx.base_seed * 31 + ctx.shard)],
                          capture_output=True, text=True, check=False, timeout=3000,
                          env={**os.environ, "VERIF_REPO": env.REPO_ROOT, "PYTHONHASHSEED": "0"})
    stats = {}
    try:
        with open(os.path.join(out, "stats.json")) as f:
            stats = json.load(f)
    except OSError:
        ctx.note(f"atheris stage produced no stats (exit {proc.returncode}): {proc.stderr[-300:]}")
    ctx.count("atheris_execs", int(stats.get("execs", 0)))
    ctx.count("atheris_raised_loaderror", int(stats.get("raised_loaderror", 0)))
    ctx.count("atheris_returned", int(stats.get("returned", 0)))
    for path in sorted(glob.glob(os.path.join(out, "case_*.json"))):
        with open(path) as f:
            rec = json.load(f)
        ctx.count("atheris_saved_cases")
        check_case(ctx, rec["case"])
    shutil.rmtree(os.path.join(out, "corpus"), ignore_errors=True)


def hostile_table_cases():
    """Every type-aimed hostile string (soup.HOSTILE_BY_TAG) and every general hostile string / number against the scalar it
    aims at, bare and as list element / dict value / dict key, in the six mode combinations."""
    for tag, strings in sorted(soup.HOSTILE_BY_TAG.items()):
        specs = [["ip", n] for n in tspec.IP_NAMES] if tag == "ip" else [[tag]]
        for spec in specs:
            for d in [*strings, *soup.HOSTILE_DATA_BY_TAG.get(tag, []), *soup.HOSTILE_STRINGS, *soup.HOSTILE_NUMBERS,
                      {"$": "pow10", "e": 5000, "neg": False}]:
                for shape in ("bare", "list", "dict_value", "dict_key"):
                    if shape == "dict_key" and (tag not in tspec.HASHABLE_KEY_TAGS or not isinstance(d, (str, int, float))):
                        continue
                    t = {"bare": spec, "list": ["list", spec, "typing"], "dict_value": ["dict", ["str"], spec, "typing"],
                         "dict_key": ["dict", spec, ["int"], "typing"]}[shape]
                    datum = {"bare": d, "list": [d], "dict_value": {"$": "d", "v": [["k", d]]},
                             "dict_key": {"$": "d", "v": [[d, 1]]}}[shape]
                    # date / datetime also under their non-default representations (timestamps, a format string)
                    prov_sets = [[]] + ([["ts_datetime"], ["dt_format"]] if tag == "datetime" else [["ts_date"]] if tag == "date" else [])
                    for provs in prov_sets:
                        for mode in range(6):
                            yield {"t": t, "datum": datum, "ops": ["table"], "strict": bool(mode % 2), "debug": mode // 2,
                                   "provs": provs, "layouts": {}}


def list_layout_table_cases():
    """List-layout (as_list) models, at the root and one level down, x root containers of every wrong shape: mappings with
    integer keys (complete, with a gap, with an invalid item before the gap), strings, bytes, scalars, too short / too long
    sequences, one-shot iterators, custom mappings."""
    ok = {"a": 1, "b": "s", "c": [1]}
    bad = {"a": "x", "b": 5, "c": "zz"}
    for kind in ("dataclass", "namedtuple", "typeddict"):
        for names in (["a", "b"], ["a", "b", "c"]):
            types = {"a": ["int"], "b": ["str"], "c": ["list", ["int"], "typing"]}
            model = ["model", {"name": "M0", "kind": kind, "fields": [{"n": n, "t": types[n], "d": None} for n in names]}]
            order = sorted(names) if kind == "typeddict" else names   # TypedDict list layouts are ordered by name
            good = [ok[n] for n in order]
            items = {
                "valid": good, "tuple": {"$": "t", "v": good}, "short": good[:-1], "long": [*good, 7], "empty": [],
                "first_bad": [bad[order[0]], *good[1:]], "last_bad": [*good[:-1], bad[order[-1]]],
                "all_bad": [bad[n] for n in order],
                "intkeys": {"$": "d", "v": [[i, x] for i, x in enumerate(good)]},
                "intkeys_first_only": {"$": "d", "v": [[0, good[0]]]},
                "intkeys_gap": {"$": "d", "v": [[i, x] for i, x in enumerate(good) if i != 1]},
                "intkeys_bad_then_gap": {"$": "d", "v": [[0, bad[order[0]]], *[[i, x] for i, x in enumerate(good) if i > 1]]},
                "intkeys_late": {"$": "d", "v": [[i + 1, x] for i, x in enumerate(good)]},
                "strkeys": {"$": "d", "v": [[str(i), x] for i, x in enumerate(good)]},
                "custmap_int": {"$": "custmap", "v": [[0, bad[order[0]]]]},
                "str": "ab", "str_long": "abcdef", "bytes": {"$": "bytes", "h": "6162"}, "int": 5, "none": None,
                "gen": {"$": "gen", "v": good}, "nolen": {"$": "nolen", "v": good}, "set": {"$": "set", "v": [1, 2]},
                "deque": {"$": "deque", "v": good},
            }
            for label, datum in items.items():
                for wrap in ("root", "in_list", "in_model"):
                    if wrap == "root":
                        t, d = model, datum
                    elif wrap == "in_list":
                        t, d = ["list", model, "typing"], [datum, datum]
                    else:
                        t = ["model", {"name": "M1", "kind": "dataclass", "fields": [{"n": "k", "t": ["int"], "d": None},
                                                                                     {"n": "m", "t": model, "d": None}]}]
                        d = {"$": "d", "v": [["k", "bad"], ["m", datum]]}
                    for mode in range(6):
                        yield {"t": t, "datum": d, "ops": ["table", f"list_layout:{label}"], "strict": bool(mode % 2),
                               "debug": mode // 2, "provs": [], "layouts": {"M0": "as_list"}}


def duck_table_cases():
    """Dict-layout models whose FIRST looked-up field is optional / required x root data that have one method of a mapping only
    (``get`` alone, ``__getitem__`` alone), scalars and other non-mappings, at the root and one level down."""
    for kind in ("dataclass", "typeddict", "namedtuple", "attrs"):
        for order in ("opt_first", "req_first", "all_opt", "all_req"):
            fs = {"opt_first": [("a", True), ("b", False)], "req_first": [("a", False), ("b", True)],
                  "all_opt": [("a", True), ("b", True)], "all_req": [("a", False), ("b", False)]}[order]
            if kind != "typeddict":   # (a TypedDict orders its keys by name; the others need defaults last)
                fs = sorted(fs, key=lambda f: f[1])
                if order == "opt_first":
                    continue
            dflt = ["nr"] if kind == "typeddict" else ["v", 0]
            model = ["model", {"name": "M0", "kind": kind,
                               "fields": [{"n": n, "t": ["int"], "d": dflt if opt else None} for n, opt in fs]}]
            for label, datum in {"getonly": {"$": "getonly"}, "rematch": {"$": "rematch"}, "sqlrow": {"$": "sqlrow"}, "opaque": {"$": "opaque"}, "int": 5,
                                 "str": "ab", "list": [1, 2], "none": None, "itemsonly": {"$": "itemsonly", "v": [["a", 1], ["b", 2]]},
                                 "set": {"$": "set", "v": ["a", "b"]}, "custmap": {"$": "custmap", "v": [["a", 1], ["b", 2]]},
                                 # class objects carry the mapping / sequence methods of their instances unbound
                                 "cls_dict": {"$": "type", "n": "dict"}, "cls_ordereddict": {"$": "type", "n": "ordereddict"},
                                 "cls_mapping_abc": {"$": "type", "n": "mapping_abc"}, "cls_list": {"$": "type", "n": "list"},
                                 "cls_int": {"$": "type", "n": "int"}}.items():
                for wrap in ("root", "in_list", "in_model"):
                    if wrap == "root":
                        t, d = model, datum
                    elif wrap == "in_list":
                        t, d = ["list", model, "typing"], [datum]
                    else:
                        t = ["model", {"name": "M1", "kind": "dataclass", "fields": [{"n": "m", "t": model, "d": None}]}]
                        d = {"$": "d", "v": [["m", datum]]}
                    for mode in range(6):
                        yield {"t": t, "datum": d, "ops": ["table", f"duck:{order}:{label}"], "strict": bool(mode % 2),
                               "debug": mode // 2, "provs": [], "layouts": {}}


def unhashable_element_table_cases():
    """Every set-like type x element types whose LOADED values can be unhashable x data that make them so."""
    kinds = [lambda e: ["set", e, "typing"], lambda e: ["set", e, "builtin"], lambda e: ["frozenset", e, "typing"],
             lambda e: ["abc", "Set", e, "typing"], lambda e: ["abc", "MutableSet", e, "typing"]]
    elems = {
        "any": (["any"], [[1], {"$": "d", "v": [["a", 1]]}, {"$": "set", "v": [1]}, {"$": "bytearray", "h": "00"}]),
        "object": (["object"], [[1], {"$": "d", "v": []}]),
        "list_int": (["list", ["int"], "typing"], [[1], []]),
        "dict": (["dict", ["str"], ["int"], "typing"], [{"$": "d", "v": [["a", 1]]}]),
        "vtuple_any": (["vtuple", ["any"], "typing"], [[3, [4]], {"$": "t", "v": [{"$": "d", "v": []}]}]),
        "tuple_str_any": (["tuple", [["str"], ["any"]], "typing"], [["k", [1]]]),
        "decimal": (["decimal"], ["sNaN", {"$": "dec", "s": "sNaN"}]),
        "optional_list": (["optional", ["list", ["int"], "typing"], "optional"], [[1]]),
        "union_list_int": (["union", [["list", ["int"], "typing"], ["int"]], "typing"], [[1]]),
    }
    for mk in kinds:
        for ename, (espec, bad_items) in sorted(elems.items()):
            for item in bad_items:
                for shape in ("bare", "second_item", "in_list", "in_model"):
                    t = mk(espec)
                    datum = [item] if shape != "second_item" else [item, item]
                    if shape == "in_list":
                        t, datum = ["list", t, "typing"], [datum]
                    elif shape == "in_model":
                        t = ["model", {"name": "M0", "kind": "dataclass", "fields": [{"n": "k", "t": ["int"], "d": None},
                                                                                     {"n": "s", "t": t, "d": None}]}]
                        datum = {"$": "d", "v": [["k", "bad"], ["s", datum]]}
                    for mode in range(6):
                        yield {"t": t, "datum": datum, "ops": ["table", f"unhashable_element:{ename}"], "strict": bool(mode % 2),
                               "debug": mode // 2, "provs": [], "layouts": {}}


def extra_field_table_cases():
    """Models that collect unknown keys into a TYPED field (extra_in='<field>'): the collected mapping goes through that field's
    loader, which can fail (Dict[str, int] given a str value, a non-str key ...), at the root and one level down."""
    for kind in ("dataclass", "attrs", "namedtuple"):
        for extra_t in (["dict", ["str"], ["int"], "typing"], ["dict", ["str"], ["list", ["int"], "typing"], "typing"],
                        ["mapping", ["str"], ["int"]]):
            model = ["model", {"name": "M0", "kind": kind, "fields": [{"n": "a", "t": ["int"], "d": None},
                                                                       {"n": "rest", "t": extra_t, "d": None}]}]
            good_v = [1] if extra_t[2][0] == "list" else 1
            data = {
                "no_extra": [["a", 1]], "good_extra": [["a", 1], ["x", good_v]], "bad_extra_value": [["a", 1], ["x", "oops"]],
                "bad_field_and_extra": [["a", "bad"], ["x", "oops"], ["y", None]], "nonstr_extra_key": [["a", 1], [5, good_v]],
                "mixed_keys": [["a", 1], [5, good_v], ["x", "oops"], [None, good_v]], "missing_field": [["x", "oops"]],
                "extra_named_like_target": [["a", 1], ["rest", "oops"]],
            }
            for label, pairs in data.items():
                datum = {"$": "d", "v": pairs}
                for wrap in ("root", "in_list", "first_union_case"):
                    if wrap == "root":
                        t, d = model, datum
                    elif wrap == "in_list":
                        t, d = ["list", model, "typing"], [datum]
                    else:
                        other = ["model", {"name": "M1", "kind": "dataclass", "fields": [{"n": "a", "t": ["int"], "d": None}]}]
                        t, d = ["union", [model, other], "typing"], datum
                    for mode in range(6):
                        yield {"t": t, "datum": d, "ops": ["table", f"extra_field:{label}"], "strict": bool(mode % 2),
                               "debug": mode // 2, "provs": [], "layouts": {"M0": "extra_in_field:rest"}}


def explore(ctx: runner.Ctx):
    n_dk = 0
    for i, c in enumerate(duck_table_cases()):
        n_dk += 1
        if i % ctx.nshards == ctx.shard:
            runner.guarded(ctx, lambda k: check_case(ctx, k), c)
    ctx.mark_exhaustive(f"duck table: {n_dk} cases = dict-layout models (first looked-up field optional / required) x 16 root data (five of them class objects) that "
                        f"are mappings by one method only, or not at all x (root, list element, model field) x 6 mode combinations")
    n_ue = 0
    for i, c in enumerate(unhashable_element_table_cases()):
        n_ue += 1
        if i % ctx.nshards == ctx.shard:
            runner.guarded(ctx, lambda k: check_case(ctx, k), c)
    ctx.mark_exhaustive(f"unhashable-element table: {n_ue} cases = 5 set-like types x 9 element types whose loaded values can be "
                        f"unhashable x data x (bare, second item, list element, model field) x 6 mode combinations")
    n_ef = 0
    for i, c in enumerate(extra_field_table_cases()):
        n_ef += 1
        if i % ctx.nshards == ctx.shard:
            runner.guarded(ctx, lambda k: check_case(ctx, k), c)
    ctx.mark_exhaustive(f"extra-field table: {n_ef} cases = models collecting unknown keys into a typed field x 8 inputs x (root, "
                        f"list element, first case of a union) x 6 mode combinations")
    n_ll = 0
    for i, c in enumerate(list_layout_table_cases()):
        n_ll += 1
        if i % ctx.nshards == ctx.shard:
            runner.guarded(ctx, lambda k: check_case(ctx, k), c)
    ctx.mark_exhaustive(f"list-layout table: {n_ll} cases = 3 model kinds x 2 field lists x 24 root containers of right and wrong "
                        f"shapes x (root, list element, field of an outer model) x 6 mode combinations")
    n_tab = 0
    for i, c in enumerate(hostile_table_cases()):
        n_tab += 1
        if i % ctx.nshards == ctx.shard:
            runner.guarded(ctx, lambda k: check_case(ctx, k), c)
    ctx.mark_exhaustive(f"hostile-scalar table: {n_tab} cases = every aimed / general hostile string and number x the scalar "
                        f"type it aims at x (bare, list element, dict value, dict key) x 6 mode combinations")
    n = ctx.budget(8000, 500000)
    ctx.given(st_case(), lambda c: check_case(ctx, c), n)
    ctx.given(st_user_case(), lambda c: check_case(ctx, c), max(50, n // 40), seed_offset=1)
    if os.environ.get("VERIF_C04_NO_ATHERIS") != "1":
        atheris_stage(ctx, ctx.budget(24000, 3200000))


RULE = ("two engines. Hypothesis: cases = (type spec, datum, strict, debug, providers, layouts); datum = arbitrary data soup (40%) or the "
        "reference dump of a canonical value mutated at 0-3 positions (60%). Non-trivial = the loader raised or the datum "
        "is nested >= 2; distinct by the whole case. Plus user-code cases (loader/validator raising ArithmeticError). "
        "Atheris (coverage-guided, libFuzzer): bytes -> (index into a table of 150 generated (type, mode) loaders, recursively "
        "decoded datum) with the same oracle inside the target; executions are reported under counters.atheris_execs and every "
        "case it saves is re-evaluated by the ordinary oracle (those re-evaluations are part of `evaluations`).")

if __name__ == "__main__":
    raise SystemExit(runner.main(
        PROP, explore=explore, check_case=check_case, strategy=st.one_of(st_case(), st_user_case()), rule=RULE,
        assumptions=["input nesting is capped (depth <= ~8): RecursionError on over-deep data is not counted",
                     "a union swallowing a user exception of one case is unspecified (not asserted)"],
    ))
