"""C12 -- A shared retort is safe under concurrent first use.

Generated value: the *schedule*.  2-3 worker threads run real adaptix code (``Retort.load/dump/get_loader/
get_dumper`` on ONE fresh retort); ``vkit.sched.Scheduler`` turns every line event inside the retort's
lookup/creation/caching code (``_internal/retort/*.py``, ``morphing/facade/retort.py``, ``provider/essential.py``,
``code_tools/compiler.py`` minus the body of the real lock) into a yield point and lets exactly one thread run at
a time, so a run is a pure function of (program, options, schedule).  A case is

    {"family": <model family>, "threads": [[op, ...], ...], "debug": 0|1|2, "strict": bool,
     "sched": {"prio": [thread order], "cp": [global yield indices where the running thread is preempted]}}

Explored: all single-preemption schedules of the catalogue programs (exhaustive, sharded by index), all
two-preemption schedules whose two points lie on *conflict lines* (lines of the functions that touch shared state),
and PCT-style random schedules (1-4 change points, random priorities, catalogue and random programs) from Hypothesis.

Oracle (property statement): every thread finishes (no deadlock); every call made during the race and every
*later* call on every loader/dumper obtained during the race (and on the retort itself) has the same outcome --
value, or exception structure -- as on a fresh retort used single-threaded.
"""
from __future__ import annotations

import json
import linecache
import os
import re
import subprocess
import sys
import types
from typing import Any, Optional

from vkit import env, runner
from vkit.errors import describe, exc_site, first_foreign, leaves

env.import_adaptix()

from hypothesis import strategies as st  # noqa: E402

import adaptix  # noqa: E402
from adaptix import DebugTrail, Retort  # noqa: E402
from adaptix.load_error import LoadError  # noqa: E402
from vkit.sched import Scheduler  # noqa: E402

PROP = "C12"
DEBUG = [DebugTrail.DISABLE, DebugTrail.FIRST, DebugTrail.ALL]
GRACE = float(os.environ.get("C12_GRACE", "3.0"))             # nothing moves for this long -> hang candidate
BLOCK_DETECT = float(os.environ.get("C12_BLOCK_DETECT", "0.1"))  # token holder idle (no CPU) -> release another
MAX_STEPS = 400_000
# sys.monitoring (local LINE events on the traced code objects only) is ~2x faster than sys.settrace; both engines
# are cross-checked against each other at the start of every shard
ENGINE = os.environ.get("C12_ENGINE") or ("monitoring" if hasattr(sys, "monitoring") else "settrace")
MAX_HANGS_PER_PROCESS = 2

# ----------------------------------------------------------------------------------- what is traced
_INTERNAL = os.path.join(os.path.dirname(adaptix.__file__), "_internal")


def _traced_files() -> frozenset:
    out = []
    rdir = os.path.join(_INTERNAL, "retort")
    for name in sorted(os.listdir(rdir)):
        if name.endswith(".py"):
            out.append(os.path.join(rdir, name))
    out.append(os.path.join(_INTERNAL, "morphing", "facade", "retort.py"))
    out.append(os.path.join(_INTERNAL, "provider", "essential.py"))
    out.append(os.path.join(_INTERNAL, "code_tools", "compiler.py"))
    for p in out:
        if not os.path.exists(p):
            raise env.HarnessError(f"traced file {p} does not exist")
    return frozenset(out)


TRACED = _traced_files()
# no yield points inside: the body of the only real lock (ConcurrentCounter.generate_idx), and the DebugTrail.FIRST
# wrapper around a finished loader/dumper (it happens to live in facade/retort.py but belongs to the *call* of a
# loader, which the harness treats as atomic -- a preemption inside its ``except`` clause would also separate the
# moment an exception is raised from the moment the harness diagnoses it)
NO_YIELD = frozenset({"generate_idx", "trail_rendering_wrapper"})

# lines of these functions are the *conflict points* (they read/write state shared between requests: the loader/
# dumper/call caches, recursion stubs, the file-name counter, linecache) -- plus the harness's own "op" checkpoints
CONFLICT_FUNCS = frozenset({
    "get_loader", "get_dumper", "_make_loader", "_make_dumper", "load", "dump", "cached_call",
    "track_request", "track_response", "set_func", "send", "__eq__", "__hash__",
    "compile", "_compile", "_get_unique_id", "op",
})

# ----------------------------------------------------------------------------------- model families (pure data)
_HEADER = "from dataclasses import dataclass, field\nfrom typing import Dict, List, Optional\n\n"

FAMILIES: dict[str, dict] = {
    "tree": {
        "src": "@dataclass\nclass Node:\n    value: int\n    children: List['Node']\n",
        "load": {"Node": [
            {"value": 1, "children": [{"value": 2, "children": [{"value": 3, "children": []}]},
                                      {"value": 4, "children": []}]},
            {"value": 0, "children": []},
            {"value": 1, "children": [{"value": 2, "children": [{"value": "x", "children": []}]}]},
            {"value": 1},
        ]},
        "dump": {"Node": ["Node(1, [Node(2, [Node(3, [])]), Node(4, [])])", "Node(0, [])"]},
    },
    "chain": {
        "src": "@dataclass\nclass Link:\n    v: int\n    next: Optional['Link'] = None\n",
        "load": {"Link": [
            {"v": 1, "next": {"v": 2, "next": {"v": 3, "next": None}}},
            {"v": 0},
            {"v": 1, "next": {"v": 2, "next": {"v": None}}},
            {"next": None},
        ]},
        "dump": {"Link": ["Link(1, Link(2, Link(3)))", "Link(0)"]},
    },
    "mutual": {
        "src": ("@dataclass\nclass A:\n    x: int\n    b: Optional['B']\n\n"
                "@dataclass\nclass B:\n    y: str\n    a: List['A']\n"),
        "load": {
            "A": [
                {"x": 1, "b": {"y": "p", "a": [{"x": 2, "b": {"y": "q", "a": []}}, {"x": 3, "b": None}]}},
                {"x": 0, "b": None},
                {"x": 1, "b": {"y": "p", "a": [{"x": 2, "b": {"y": 5, "a": []}}]}},
                {"x": 1, "b": {"y": "p"}},
            ],
            "B": [
                {"y": "p", "a": [{"x": 1, "b": {"y": "q", "a": [{"x": 2, "b": None}]}}]},
                {"y": "", "a": []},
                {"y": "p", "a": [{"x": 1, "b": {"y": "q", "a": [{"x": "2", "b": None}]}}]},
                {"a": []},
            ],
        },
        "dump": {
            "A": ["A(1, B('p', [A(2, B('q', [])), A(3, None)]))", "A(0, None)"],
            "B": ["B('p', [A(1, B('q', [A(2, None)]))])", "B('', [])"],
        },
    },
    "btree": {
        "src": ("@dataclass\nclass BNode:\n    val: int\n    left: Optional['BNode'] = None\n"
                "    right: Optional['BNode'] = None\n"),
        "load": {"BNode": [
            {"val": 1, "left": {"val": 2, "right": {"val": 3}}, "right": {"val": 4, "left": {"val": 5}}},
            {"val": 0},
            {"val": 1, "left": {"val": 2, "right": {"val": []}}},
            {"left": None},
        ]},
        "dump": {"BNode": ["BNode(1, BNode(2, None, BNode(3)), BNode(4, BNode(5)))", "BNode(0)"]},
    },
    "dictrec": {
        "src": "@dataclass\nclass Cat:\n    name: str\n    sub: Dict[str, 'Cat'] = field(default_factory=dict)\n",
        "load": {"Cat": [
            {"name": "r", "sub": {"a": {"name": "a", "sub": {"b": {"name": "b"}}}, "c": {"name": "c", "sub": {}}}},
            {"name": ""},
            {"name": "r", "sub": {"a": {"name": "a", "sub": {"b": {"name": 1}}}}},
            {"sub": {}},
        ]},
        "dump": {"Cat": ["Cat('r', {'a': Cat('a', {'b': Cat('b')}), 'c': Cat('c')})", "Cat('')"]},
    },
    "wide": {  # many different field types: many call-cache entries per request
        "src": ("@dataclass\nclass Leaf:\n    a: int\n    b: str\n\n"
                "@dataclass\nclass Wide:\n    i: int\n    s: str\n    f: float\n    b: bool\n    raw: bytes\n"
                "    li: List[int]\n    ls: List[str]\n    di: Dict[str, int]\n    oi: Optional[int]\n"
                "    leaf: Leaf\n    leaves: List[Leaf]\n    oleaf: Optional[Leaf]\n    named: Dict[str, Leaf]\n"
                "    kids: List['Wide'] = field(default_factory=list)\n"),
        "load": {
            "Wide": [
                {"i": 1, "s": "s", "f": 1.5, "b": True, "raw": "YQ==", "li": [1, 2], "ls": ["x"], "di": {"k": 1},
                 "oi": None, "leaf": {"a": 1, "b": "x"}, "leaves": [{"a": 2, "b": "y"}], "oleaf": {"a": 3, "b": "z"},
                 "named": {"n": {"a": 4, "b": "w"}},
                 "kids": [{"i": 2, "s": "", "f": 0.0, "b": False, "raw": "", "li": [], "ls": [], "di": {}, "oi": 5,
                           "leaf": {"a": 0, "b": ""}, "leaves": [], "oleaf": None, "named": {}, "kids": []}]},
                {"i": 0, "s": "", "f": 0.0, "b": False, "raw": "", "li": [], "ls": [], "di": {}, "oi": None,
                 "leaf": {"a": 0, "b": ""}, "leaves": [], "oleaf": None, "named": {}},
                {"i": 1, "s": "s", "f": 1.5, "b": True, "raw": "YQ==", "li": [1, "2"], "ls": ["x"], "di": {"k": 1},
                 "oi": None, "leaf": {"a": 1, "b": "x"}, "leaves": [{"a": 2, "b": 3}], "oleaf": None, "named": {},
                 "kids": [{"i": "2"}]},
                {"i": 1},
            ],
            "Leaf": [{"a": 1, "b": "x"}, {"a": 0, "b": ""}, {"a": 1, "b": 2}, {"a": 1}],
        },
        "dump": {
            "Wide": ["Wide(1, 's', 1.5, True, b'a', [1, 2], ['x'], {'k': 1}, None, Leaf(1, 'x'), [Leaf(2, 'y')], "
                     "Leaf(3, 'z'), {'n': Leaf(4, 'w')}, [Wide(2, '', 0.0, False, b'', [], [], {}, 5, Leaf(0, ''), [], "
                     "None, {}, [])])",
                     "Wide(0, '', 0.0, False, b'', [], [], {}, None, Leaf(0, ''), [], None, {})"],
            "Leaf": ["Leaf(1, 'x')", "Leaf(0, '')"],
        },
    },
    "plain": {  # non-recursive control
        "src": ("@dataclass\nclass Inner:\n    a: int\n    b: str\n\n"
                "@dataclass\nclass Outer:\n    inner: Inner\n    items: List[Inner]\n    opt: Optional[Inner] = None\n"),
        "load": {
            "Outer": [
                {"inner": {"a": 1, "b": "x"}, "items": [{"a": 2, "b": "y"}, {"a": 3, "b": "z"}],
                 "opt": {"a": 4, "b": "w"}},
                {"inner": {"a": 0, "b": ""}, "items": []},
                {"inner": {"a": 1, "b": "x"}, "items": [{"a": 2, "b": "y"}, {"a": "3", "b": "z"}]},
                {"items": []},
            ],
            "Inner": [{"a": 1, "b": "x"}, {"a": 0, "b": ""}, {"a": 1, "b": 2}, {"a": 1}],
        },
        "dump": {
            "Outer": ["Outer(Inner(1, 'x'), [Inner(2, 'y'), Inner(3, 'z')], Inner(4, 'w'))", "Outer(Inner(0, ''), [])"],
            "Inner": ["Inner(1, 'x')", "Inner(0, '')"],
        },
    },
}
FAMILY_NAMES = sorted(FAMILIES)
WRAPPERS = ("", "List", "Optional", "Dict")


def type_keys(family: str) -> list[str]:
    out = []
    for base in sorted(FAMILIES[family]["load"]):
        out.append(base)
        out.append(f"List[{base}]")
        out.append(f"Optional[{base}]")
        out.append(f"Dict[str,{base}]")
    return out


def _split(tk: str):
    m = re.fullmatch(r"(?:(List|Optional)\[(\w+)\]|(Dict)\[str,(\w+)\]|(\w+))", tk)
    if m is None:
        raise env.HarnessError(f"bad type key {tk!r}")
    if m.group(5):
        return "", m.group(5)
    if m.group(3):
        return "Dict", m.group(4)
    return m.group(1), m.group(2)


class Fam:
    """One model family realised as classes in a private module (built once per process; adaptix keeps no
    per-class state outside retorts, every case gets a fresh Retort)."""

    def __init__(self, name: str):
        spec = FAMILIES[name]
        self.name = name
        modname = f"c12_models_{name}"
        mod = types.ModuleType(modname)
        sys.modules[modname] = mod
        exec(compile(_HEADER + spec["src"], f"<c12 models {name}>", "exec"), mod.__dict__)  # noqa: S102
        self.ns = mod.__dict__
        self.hints: dict[str, Any] = {}
        self._load: dict[str, list] = {}
        self._dump: dict[str, list] = {}
        for tk in type_keys(name):
            wrap, base = _split(tk)
            self.hints[tk] = eval(tk, self.ns)  # noqa: S307
            good0, good1, bad0, bad1 = spec["load"][base]
            objs = [eval(src, self.ns) for src in spec["dump"][base]]  # noqa: S307
            if wrap == "":
                self._load[tk] = [good0, good1, bad0, bad1]
                self._dump[tk] = objs
            elif wrap == "List":
                self._load[tk] = [[good0, good1], [], [good1, bad0], good0]
                self._dump[tk] = [objs, []]
            elif wrap == "Optional":
                self._load[tk] = [good0, None, bad0]
                self._dump[tk] = [objs[0], None]
            else:
                self._load[tk] = [{"k": good0, "j": good1}, {}, {"k": bad0}, [good0]]
                self._dump[tk] = [{"k": objs[0], "j": objs[1]}, {}]

    def data(self, kind: str, tk: str) -> list:
        return self._load[tk] if kind == "load" else self._dump[tk]


_FAMS: dict[str, Fam] = {}


def fam(name: str) -> Fam:
    f = _FAMS.get(name)
    if f is None:
        f = _FAMS[name] = Fam(name)
    return f


# ----------------------------------------------------------------------------------- outcomes
class Outcome:
    __slots__ = ("ok", "struct", "exc", "value")

    def __init__(self, ok, struct, exc=None, value=None):
        self.ok, self.struct, self.exc, self.value = ok, struct, exc, value

    def same(self, other: "Outcome") -> bool:
        return self.ok == other.ok and self.struct == other.struct

    def short(self) -> str:
        return ("value " if self.ok else "raised ") + json.dumps(self.struct, default=repr)[:300]


def exc_struct(e: BaseException):
    if isinstance(e, (LoadError, BaseExceptionGroup)):
        return [type(e).__name__,
                sorted([repr(list(trail)), type(leaf).__name__] for trail, leaf in leaves(e))]
    return [type(e).__name__, str(e)[:300]]


def call_outcome(fn, *args, keep_value=False) -> Outcome:
    """Observe the code under test: a value or the exception it raised (never swallowed: it becomes the outcome)."""
    try:
        v = fn(*args)
    except Exception as e:  # noqa: BLE001
        return Outcome(False, exc_struct(e), exc=e)
    if keep_value:
        return Outcome(True, "created", value=v)
    return Outcome(True, repr(v))


class Reference:
    """Outcomes on a fresh retort used by one thread only (no tracing)."""

    def __init__(self, family: str, debug: int, strict: bool):
        self.f = fam(family)
        self.retort = Retort(strict_coercion=strict, debug_trail=DEBUG[debug])
        self._calls: dict = {}
        self._creation: dict = {}

    def creation(self, kind: str, tk: str) -> Outcome:
        key = (kind, tk)
        if key not in self._creation:
            getter = self.retort.get_loader if kind == "load" else self.retort.get_dumper
            self._creation[key] = call_outcome(getter, self.f.hints[tk], keep_value=True)
        return self._creation[key]

    def call(self, kind: str, tk: str, di: int) -> Outcome:
        key = (kind, tk, di)
        if key not in self._calls:
            cr = self.creation(kind, tk)
            if not cr.ok:
                self._calls[key] = Outcome(False, cr.struct, exc=cr.exc)
            else:
                self._calls[key] = call_outcome(cr.value, self.f.data(kind, tk)[di])
        return self._calls[key]


_REFS: dict = {}


def reference(family: str, debug: int, strict: bool) -> Reference:
    key = (family, debug, strict)
    r = _REFS.get(key)
    if r is None:
        r = _REFS[key] = Reference(family, debug, strict)
    return r


# ----------------------------------------------------------------------------------- diagnosis (bucketing only)
_FuncWrapper = None


def _func_wrapper_cls():
    global _FuncWrapper  # noqa: PLW0603
    if _FuncWrapper is None:
        from adaptix._internal.retort.operating_retort import FuncWrapper  # noqa: PLC0415
        _FuncWrapper = FuncWrapper
    return _FuncWrapper


def unbound_stubs(roots) -> list:
    """Recursion stubs without a target reachable from ``roots`` through closures / containers / partials."""
    fw = _func_wrapper_cls()
    seen: set[int] = set()
    stack = list(roots)
    found = []
    budget = 20000
    while stack and budget:
        budget -= 1
        o = stack.pop()
        if id(o) in seen:
            continue
        seen.add(id(o))
        if isinstance(o, fw):
            target = o.__call__
            if target is None:
                found.append(o)
            else:
                stack.append(target)
        elif isinstance(o, types.FunctionType):
            for cell in o.__closure__ or ():
                try:
                    stack.append(cell.cell_contents)
                except ValueError:
                    pass
            stack.extend(o.__defaults__ or ())
            stack.extend((o.__kwdefaults__ or {}).values())
        elif isinstance(o, types.MethodType):
            stack.append(o.__func__)
            stack.append(o.__self__)
        elif isinstance(o, (tuple, list, set, frozenset)):
            stack.extend(o)
        elif isinstance(o, dict):
            stack.extend(o.values())
        elif hasattr(o, "func") and hasattr(o, "args") and hasattr(o, "keywords"):  # functools.partial
            stack.append(o.func)
            stack.extend(o.args)
            stack.extend((o.keywords or {}).values())
        elif type(o).__name__ in ("OrderedMappingHashWrapper", "AlwaysEqualHashWrapper"):
            stack.append(getattr(o, "mapping", None) or getattr(o, "value", None))
    return found


def _shared_roots(retort) -> list:
    return [*retort._call_cache.values(), *retort._loader_cache.values(), *retort._dumper_cache.values()]


def _open_stub_owner(frame, stubs) -> bool:
    """Does the frame chain contain a request-bus ``send`` whose recursion resolver still owns one of ``stubs``
    (created, not yet bound), or a ``set_func`` that is about to bind one?  ``stubs=None``: any open stub counts."""
    while frame is not None:
        code = frame.f_code
        if code.co_filename in TRACED:
            if code.co_name == "send":
                bus = frame.f_locals.get("self")
                resolver = getattr(bus, "_recursion_resolver", None)
                table = getattr(resolver, "_loc_to_stub", None)
                if table and (stubs is None or any(s is t for s in stubs for t in table.values())):
                    return True
            elif code.co_name == "set_func":
                me = frame.f_locals.get("self")
                if stubs is None or any(s is me for s in stubs):
                    return True
        frame = frame.f_back
    return False


def _in_request(frame) -> bool:
    while frame is not None:
        if frame.f_code.co_name == "_facade_provide" and frame.f_code.co_filename in TRACED:
            return True
        frame = frame.f_back
    return False


def _where(frame) -> str:
    """Landmark of a parked thread: the nearest enclosing *conflict function* (``file.py:function``) of the yield
    point where it was stopped -- e.g. a thread stopped in ``route_handler`` called from ``_send_inner`` called
    from ``RecursiveRequestBus.send`` is reported as ``request_bus.py:send``."""
    while frame is not None:
        code = frame.f_code
        if code.co_filename in TRACED and code.co_name in CONFLICT_FUNCS:
            return f"{os.path.basename(code.co_filename)}:{code.co_name}"
        frame = frame.f_back
    return "none"


def _raised_during_creation(exc: Optional[BaseException]) -> bool:
    tb = exc.__traceback__ if exc is not None else None
    while tb is not None:
        code = tb.tb_frame.f_code
        if code.co_name == "_facade_provide" and code.co_filename in TRACED:
            return True
        tb = tb.tb_next
    return False


def diagnose(retort, sched: Optional[Scheduler], me: int, nthreads: int, roots=None, exc=None, last="none"):
    """-> (diagnosis, landmark of the stub owner / of the most recent preemption).  Used for bucket signatures
    and details only, never as a verdict."""
    stopped = last
    if sched is not None and sched.result.switches:
        # landmark of the most recent preemption (recorded when it happened)
        stopped = sched.result.switches[-1].info["landmark"]
    if _raised_during_creation(exc):
        return "raised_during_creation", stopped
    stubs = unbound_stubs(list(roots) if roots is not None else _shared_roots(retort))
    if not stubs and roots is not None:
        stubs = unbound_stubs(_shared_roots(retort))
    if not stubs:
        return "no_unbound_stub", stopped
    if sched is not None:
        for idx in range(nthreads):
            if idx == me:
                continue
            fr = sched.parked_frame(idx)
            if fr is not None and _open_stub_owner(fr, stubs):
                return "unbound_stub:owner_in_flight", _where(fr)
    return "unbound_stub:owner_gone", stopped


# ----------------------------------------------------------------------------------- executing one case
class Record:
    __slots__ = ("phase", "thread", "what", "kind", "tk", "di", "got", "ref", "diag", "stopped", "site")

    def __init__(self, phase, thread, what, kind, tk, di, got, ref):
        self.phase, self.thread, self.what, self.kind, self.tk, self.di = phase, thread, what, kind, tk, di
        self.got, self.ref = got, ref
        self.diag = self.stopped = self.site = None

    @property
    def differs(self) -> bool:
        return not self.got.same(self.ref)


class Report:
    def __init__(self):
        self.status = "ok"
        self.records: list[Record] = []
        self.sched_result = None
        self.steps = 0
        self.per_thread = []
        self.switches = []
        self.fallbacks = 0
        self.log = None
        self.blocked_at = []

    def diffs(self):
        return [r for r in self.records if r.differs]


def _validate(case):
    f = case["family"]
    if f not in FAMILIES:
        raise env.HarnessError(f"unknown family {f!r}")
    tks = set(type_keys(f))
    for ops in case["threads"]:
        for op in ops:
            if op[0] not in ("load", "dump", "get_loader", "get_dumper") or op[1] not in tks:
                raise env.HarnessError(f"bad op {op!r}")


def execute(case, *, record=False, grace=GRACE, engine=None) -> Report:  # noqa: C901
    _validate(case)
    f = fam(case["family"])
    debug, strict = case["debug"], case["strict"]
    ref = reference(case["family"], debug, strict)
    threads = case["threads"]
    n = len(threads)
    # reference outcomes are computed up front, in this (untraced) thread
    for ops in threads:
        for op in ops:
            kind = "load" if op[0] in ("load", "get_loader") else "dump"
            ref.creation(kind, op[1])
            for di in range(len(f.data(kind, op[1]))):
                ref.call(kind, op[1], di)

    retort = Retort(strict_coercion=strict, debug_trail=DEBUG[debug])
    rep = Report()
    per_thread: list[list[Record]] = [[] for _ in range(n)]
    obtained: list = []  # (thread, kind, tk, callable)

    def note(i, rec: Record, sched, roots=None):
        if rec.differs:
            rec.diag, rec.stopped = diagnose(retort, sched, i, n, roots, rec.got.exc)
            if rec.got.exc is not None:
                root = first_foreign(rec.got.exc) or rec.got.exc
                rec.site = exc_site(root)
        per_thread[i].append(rec)

    def body(sched: Scheduler, i: int):
        for op in threads[i]:
            sched.checkpoint("op")
            name, tk = op[0], op[1]
            hint = f.hints[tk]
            if name in ("load", "dump"):
                di = op[2]
                datum = f.data(name, tk)[di]
                got = call_outcome(retort.load if name == "load" else retort.dump, datum, hint)
                note(i, Record("race", i, name, name, tk, di, got, ref.call(name, tk, di)), sched)
                continue
            kind = "load" if name == "get_loader" else "dump"
            got = call_outcome(retort.get_loader if kind == "load" else retort.get_dumper, hint, keep_value=True)
            note(i, Record("race", i, name, kind, tk, -1, got, ref.creation(kind, tk)), sched)
            if got.ok:
                obtained.append((i, kind, tk, got.value))
                if op[2]:
                    for di, datum in enumerate(f.data(kind, tk)):
                        sched.checkpoint("op")
                        out = call_outcome(got.value, datum)
                        note(i, Record("race", i, "call_" + kind + "er", kind, tk, di, out, ref.call(kind, tk, di)),
                             sched, roots=[got.value])

    def on_switch(sched, sw, frame):
        return {"in_request": _in_request(frame), "stub_open": _open_stub_owner(frame, None),
                "cache": len(retort._call_cache), "landmark": _where(frame)}

    sched = Scheduler([body] * n, case["sched"], traced_files=TRACED, no_yield=NO_YIELD, grace=grace,
                      block_detect=BLOCK_DETECT,
                      max_steps=MAX_STEPS, record=record, on_switch=on_switch, engine=engine or ENGINE)
    res = sched.run()
    rep.sched_result = res
    rep.status = res.status
    rep.steps = res.steps
    rep.per_thread = res.per_thread_steps
    rep.switches = res.switches
    rep.fallbacks = res.fallbacks
    rep.log = res.log
    rep.blocked_at = res.blocked_at
    if res.errors:
        idx, err = res.errors[0]
        raise env.HarnessError(f"worker body {idx} crashed: {describe(err)}") from err
    for recs in per_thread:
        rep.records.extend(recs)
    if res.status != "ok":
        return rep

    # ---- later calls (all threads are finished; this thread is not traced)
    last = res.switches[-1].info["landmark"] if res.switches else "none"

    def later(what, kind, tk, fn, thread):
        for di, datum in enumerate(f.data(kind, tk)):
            got = call_outcome(fn, datum)
            rec = Record("later", thread, what, kind, tk, di, got, ref.call(kind, tk, di))
            if rec.differs:
                rec.diag, rec.stopped = diagnose(retort, None, -1, n, [fn], got.exc, last)
                if got.exc is not None:
                    rec.site = exc_site(first_foreign(got.exc) or got.exc)
            rep.records.append(rec)

    for (i, kind, tk, fn) in obtained:
        later("obtained_" + kind + "er", kind, tk, fn, i)
    touched = sorted({("load" if op[0] in ("load", "get_loader") else "dump", op[1]) for ops in threads for op in ops})
    for kind, tk in touched:
        hint = f.hints[tk]
        got = call_outcome(retort.get_loader if kind == "load" else retort.get_dumper, hint, keep_value=True)
        rec = Record("later", -1, "get_" + kind + "er", kind, tk, -1, got, ref.creation(kind, tk))
        if rec.differs:
            rec.diag, rec.stopped = diagnose(retort, None, -1, n, None, got.exc, last)
        rep.records.append(rec)
        if got.ok:
            later("retort_" + kind + "er", kind, tk, got.value, -1)
    # the facade calls themselves (retort.load / retort.dump), alternating between the touched types: whatever the facade
    # remembers between calls (a "last used" shortcut ...) must serve the type it is asked for
    for _ in range(2):
        for kind, tk in touched:
            hint = f.hints[tk]
            facade = (lambda d, h=hint: retort.load(d, h)) if kind == "load" else (lambda d, h=hint: retort.dump(d, h))
            later("facade_" + kind, kind, tk, facade, -1)

    for key in [k for k in linecache.cache if k.startswith("<adaptix generated")]:
        del linecache.cache[key]  # adaptix never frees these entries; keep long campaigns flat in memory
    return rep


# ----------------------------------------------------------------------------------- the oracle
_HANGS = 0


def _msg_slug(e: BaseException) -> str:
    if isinstance(e, KeyError):
        return "<key>"
    if isinstance(e, (LoadError, BaseExceptionGroup)):
        return ""  # data dependent
    s = re.sub(r"0x[0-9a-fA-F]+", "0x", str(e))
    s = re.sub(r"\d+", "N", s)
    return s[:60]


def _confirm_hang(case) -> dict:
    """Re-run the case once in a *fresh* interpreter (this process may be poisoned by the leaked blocked threads)
    with a three times longer grace period."""
    cmd = [sys.executable, "-X", "faulthandler", "-m", "props.c12_concurrency", "--probe", json.dumps(case)]
    try:
        p = subprocess.run(cmd, cwd=env.VERIF_ROOT, capture_output=True, text=True, timeout=60 + 20 * GRACE,  # noqa: S603
                           check=False)
    except subprocess.TimeoutExpired:
        return {"status": "inconclusive"}
    for line in reversed(p.stdout.splitlines()):
        if line.startswith("{"):
            return json.loads(line)
    return {"status": "inconclusive", "stderr": p.stderr[-500:]}


def check_case(ctx: runner.Ctx, case):  # noqa: C901, PLR0912
    global _HANGS  # noqa: PLW0603
    if case.get("cold"):
        from props.cold12 import check_cold_case  # noqa: PLC0415
        return check_cold_case(ctx, case)
    if _HANGS >= MAX_HANGS_PER_PROCESS:
        ctx.count("skipped_process_poisoned_by_hang")
        return
    rep = execute(case)
    evaluate(ctx, case, rep)


def evaluate(ctx: runner.Ctx, case, rep: Report):  # noqa: C901, PLR0912, PLR0915
    global _HANGS  # noqa: PLW0603
    n = len(case["threads"])
    if rep.status == "hang":
        _HANGS += 1
        ctx.count("hang_observed")
        second = _confirm_hang(case)
        if second.get("status") == "hang":
            where = sorted({(w[0] if w else "?") for _, w in rep.blocked_at})
            ctx.violation("deadlock", ("+".join(w.rsplit(":", 1)[0] for w in where),), case,
                          f"all unfinished threads blocked (twice, second time in a fresh process): "
                          f"{rep.blocked_at!r}; fresh process: {second.get('blocked_at')!r}")
        else:
            ctx.count("inconclusive_hang_not_reproduced")
        ctx.note("a hang was observed; blocked daemon threads were leaked in a shard, later cases of that shard "
                 "may have been skipped (counter skipped_process_poisoned_by_hang)")
        return
    if rep.status == "overrun":
        ctx.count("inconclusive_step_budget_overrun")
        return
    diffs = rep.diffs()
    if rep.fallbacks:
        ctx.count("runs_with_liveness_fallback")
        if diffs:
            # a thread was blocked for real during this run, so the run was not strictly a pure function of the
            # schedule: demand that the same differences show up in a second run of the same case
            rep2 = execute(case)
            if rep2.status != "ok" or \
                    {(r.phase, r.thread, r.what, r.tk, r.di) for r in rep2.diffs()} != \
                    {(r.phase, r.thread, r.what, r.tk, r.di) for r in diffs}:
                ctx.count("inconclusive_not_reproducible_after_fallback")
                return
            rep, diffs = rep2, rep2.diffs()

    fired = [sw for sw in rep.switches]
    in_request = [sw for sw in fired if sw.info["in_request"]]
    in_window = [sw for sw in in_request if sw.info["cache"] > 0]
    stub_open = [sw for sw in fired if sw.info["stub_open"]]
    nontrivial = bool(in_request)
    recursive = case["family"] != "plain"  # every other family has a self- or mutually recursive model
    immediate = any(op[0] in ("load", "dump") or op[2] for ops in case["threads"] for op in ops)
    labels = [f"family:{case['family']}", f"threads:{n}", f"switches:{min(len(fired), 5)}",
              f"debug:{case['debug']}", "calls:immediate" if immediate else "calls:deferred_only"]
    if in_request:
        labels.append("preempted_inside_creation_request")
    if in_window:
        labels.append("preempted_after_shared_cache_write")
    if stub_open:
        labels.append("preempted_with_open_stub")
    kinds = {op[0] for ops in case["threads"] for op in ops}
    if {"load", "get_loader"} & kinds and {"dump", "get_dumper"} & kinds:
        labels.append("mix:loader+dumper")
    if len({op[1] for ops in case["threads"] for op in ops}) > 1:
        labels.append("mix:different_types")
    if stub_open and not immediate and recursive:
        ctx.count("deferred_only_runs_preempted_with_open_stub")

    stub_hit = False
    for r in diffs:
        kind = "race_outcome_differs" if r.phase == "race" else "later_outcome_differs"
        if r.got.exc is not None:
            root = first_foreign(r.got.exc) or r.got.exc
            what, slug = type(root).__name__, _msg_slug(root)
        elif r.ref.ok:
            what, slug = "wrong_value", ""
        else:
            what, slug = "returned_instead_of_raising", r.ref.struct[0]
        if r.diag == "unbound_stub:owner_in_flight":
            stub_hit = True
        ctx.violation(kind, (what, slug, r.diag, r.stopped), case,
                      f"thread {r.thread} {r.what}({r.tk}, datum {r.di}) {r.got.short()}; single-threaded reference: "
                      f"{r.ref.short()}; raised at {r.site}; diagnosis {r.diag}; last preemption at {r.stopped}; "
                      f"switches {[sw.as_json() for sw in rep.switches][:6]}")
    if diffs:
        labels.append("outcome:differs")
    if stub_hit:
        labels.append("outcome:unbound_stub_called")
    ctx.count("calls_compared", len(rep.records))
    ctx.count("yield_points_executed", rep.steps)
    ctx.case([case["family"], case["threads"], case["debug"], case["strict"], case["sched"]], nontrivial,
             sample={"family": case["family"], "threads": case["threads"], "debug": case["debug"],
                     "strict": case["strict"], "sched": case["sched"], "yield_points": rep.steps,
                     "switches": [sw.as_json() for sw in rep.switches][:4]},
             labels=labels)


# ----------------------------------------------------------------------------------- programs
def L(tk, di=0):
    return ["load", tk, di]


def D(tk, di=0):
    return ["dump", tk, di]


def GL(tk, imm=0):
    return ["get_loader", tk, imm]


def GD(tk, imm=0):
    return ["get_dumper", tk, imm]


PROGRAMS: dict[str, tuple] = {
    # immediate calls (retort.load / retort.dump from racing threads)
    "tree_load2": ("tree", [[L("Node")], [L("Node")]]),
    "tree_load3": ("tree", [[L("Node")], [L("Node")], [L("Node")]]),
    "tree_dump2": ("tree", [[D("Node")], [D("Node")]]),
    "tree_load_vs_dump": ("tree", [[L("Node")], [D("Node")]]),
    "tree_model_vs_list": ("tree", [[L("Node")], [L("List[Node]")]]),
    "tree_get_vs_load": ("tree", [[GL("Node")], [L("Node")]]),
    "tree_mixed2": ("tree", [[L("Node"), D("Node")], [D("Node"), L("Node", 1)]]),
    "mutual_ends": ("mutual", [[L("A")], [L("B")]]),
    "mutual_same": ("mutual", [[L("A")], [L("A")]]),
    "mutual_list_vs_other": ("mutual", [[L("List[A]")], [L("B")]]),
    "mutual_dump_ends": ("mutual", [[D("A")], [D("B")]]),
    "chain_load2": ("chain", [[L("Link")], [L("Link")]]),
    "chain_opt_vs_model": ("chain", [[L("Optional[Link]")], [L("Link")]]),
    "btree_load2": ("btree", [[L("BNode")], [L("BNode")]]),
    "dictrec_load2": ("dictrec", [[L("Cat")], [L("Cat")]]),
    "plain_load2": ("plain", [[L("Outer")], [L("Outer")]]),
    "plain_load_vs_dump": ("plain", [[L("Outer")], [D("Outer")]]),
    "plain_inner_vs_outer": ("plain", [[L("Inner")], [L("Outer")]]),
    "wide_load2": ("wide", [[L("Wide")], [L("Wide")]]),
    "wide_load_vs_dump": ("wide", [[L("Wide")], [D("Wide")]]),
    "wide_deferred_mix": ("wide", [[GL("Wide"), GD("Leaf")], [GD("Wide"), GL("List[Leaf]")]]),
    # deferred calls only: loaders/dumpers are created in the race and called after it (a transient failure such as
    # the unbound-stub race fixed by 89c47ab cannot mask anything here; creation errors and wrong or permanently
    # broken loaders are still seen)
    "tree_deferred2": ("tree", [[GL("Node")], [GL("Node")]]),
    "tree_deferred3": ("tree", [[GL("Node")], [GL("List[Node]")], [GD("Node")]]),
    "tree_deferred_dump2": ("tree", [[GD("Node")], [GD("Node")]]),
    "tree_deferred_both": ("tree", [[GL("Node"), GD("Node")], [GD("Node"), GL("Node")]]),
    "mutual_deferred_ends": ("mutual", [[GL("A")], [GL("B")]]),
    "mutual_deferred_same": ("mutual", [[GL("A"), GD("B")], [GL("A"), GD("B")]]),
    "chain_deferred2": ("chain", [[GL("Link")], [GL("Optional[Link]")]]),
    "btree_deferred2": ("btree", [[GL("BNode")], [GL("BNode")]]),
    "dictrec_deferred2": ("dictrec", [[GL("Cat")], [GD("Cat")]]),
}


def mk_case(program: str, prio, cp, debug=2, strict=True):
    family, threads = PROGRAMS[program]
    return {"family": family, "threads": threads, "debug": debug, "strict": strict,
            "sched": {"prio": list(prio), "cp": [int(c) for c in cp]}}


class Profile:
    """Recorded sequential run of a program (threads in priority order, no preemption)."""

    def __init__(self, case, keep_log=False):
        for _attempt in range(4):
            rep = execute(dict(case, sched={"prio": case["sched"]["prio"], "cp": []}), record=True)
            if rep.status == "ok" and not rep.fallbacks:
                break  # (a liveness fallback can fire spuriously when the machine is heavily oversubscribed)
        else:
            raise env.HarnessError(f"sequential profile run ended with {rep.status}, fallbacks={rep.fallbacks}")
        self.log = rep.log if keep_log else None  # ~1 MB per program: not kept for the thousands of random programs
        self.total = rep.steps
        first = case["sched"]["prio"][0]
        self.first_steps = rep.per_thread[first]
        self.conflict_first = [g for g, (t, fn, _) in enumerate(rep.log) if t == first and fn in CONFLICT_FUNCS]
        self.conflict_all = [g for g, (t, fn, _) in enumerate(rep.log) if fn in CONFLICT_FUNCS]
        self.diffs = len(rep.diffs())


_PROFILES: dict = {}


def profile(case) -> Profile:
    key = json.dumps([case["family"], case["threads"], case["debug"], case["strict"], case["sched"]["prio"]])
    p = _PROFILES.get(key)
    if p is None:
        if len(_PROFILES) >= 512:
            _PROFILES.clear()
        p = _PROFILES[key] = Profile(case)
    return p


# ----------------------------------------------------------------------------------- strategies (PCT part)
@st.composite
def st_op(draw, family):
    tk = draw(st.sampled_from(type_keys(family)))
    name = draw(st.sampled_from(["load", "load", "dump", "get_loader", "get_dumper"]))
    if name in ("load", "dump"):
        kind = name
        return [name, tk, draw(st.integers(0, len(fam(family).data(kind, tk)) - 1))]
    return [name, tk, draw(st.integers(0, 1))]


@st.composite
def st_case(draw):
    if draw(st.integers(0, 9)) < 7:
        family, threads = PROGRAMS[draw(st.sampled_from(sorted(PROGRAMS)))]
    else:
        family = draw(st.sampled_from(FAMILY_NAMES))
        n = draw(st.sampled_from([2, 2, 3]))
        threads = [draw(st.lists(st_op(family), min_size=1, max_size=2)) for _ in range(n)]
    n = len(threads)
    debug = draw(st.sampled_from([2, 2, 2, 0, 1]))
    strict = draw(st.sampled_from([True, True, False]))
    prio = list(draw(st.permutations(list(range(n)))))
    case = {"family": family, "threads": threads, "debug": debug, "strict": strict,
            "sched": {"prio": prio, "cp": []}}
    prof = profile(case)
    d = draw(st.integers(1, 4))
    cps = set()
    for _ in range(d):
        if prof.conflict_all and draw(st.booleans()):
            cps.add(draw(st.sampled_from(prof.conflict_all)))
        else:
            cps.add(draw(st.integers(0, max(prof.total - 1, 0))))
    case["sched"]["cp"] = sorted(cps)
    return case


# ----------------------------------------------------------------------------------- exploration
def _prios(name):
    """Thread orders worth sweeping: the reversed order only when the threads differ."""
    threads = PROGRAMS[name][1]
    n = len(threads)
    fwd = tuple(range(n))
    if all(t == threads[0] for t in threads):
        return [fwd]
    out = [fwd, tuple(reversed(fwd))]
    if n == 3:
        out.append((1, 2, 0))
    return out


QUICK_CONFLICT = ["tree_load3", "tree_dump2", "tree_load_vs_dump", "tree_model_vs_list",
                  "tree_get_vs_load", "mutual_ends", "mutual_same", "chain_opt_vs_model",
                  "dictrec_load2", "plain_load2", "tree_deferred3", "tree_deferred_both",
                  "mutual_deferred_ends", "chain_deferred2", "btree_deferred2"]
THOROUGH_ALL = ["tree_load2", "tree_load3", "tree_dump2", "tree_load_vs_dump", "tree_model_vs_list",
                "tree_get_vs_load", "mutual_ends", "mutual_same", "chain_opt_vs_model", "btree_load2",
                "dictrec_load2", "plain_load2", "tree_deferred2", "tree_deferred_both", "mutual_deferred_ends",
                "chain_deferred2"]


# (program, prio, debug, strict, "all" | "conflict")
def _sweeps(tier):
    out = []
    if tier == "quick":
        out.append(("tree_load2", (0, 1), 2, True, "all"))
        out.append(("tree_deferred2", (0, 1), 2, True, "conflict"))
        for name in QUICK_CONFLICT:
            for prio in _prios(name)[:2]:
                out.append((name, prio, 2, True, "conflict"))
        out.append(("tree_load2", (0, 1), 0, True, "conflict"))
        out.append(("tree_load_vs_dump", (0, 1), 1, False, "conflict"))
        out.append(("tree_model_vs_list", (0, 1), 1, True, "conflict"))
        out.append(("tree_model_vs_list", (1, 0), 1, True, "conflict"))
        out.append(("mutual_deferred_ends", (0, 1), 0, False, "conflict"))
        return out
    for name in THOROUGH_ALL:
        for prio in _prios(name):
            out.append((name, prio, 2, True, "all"))
    for name in ("tree_load2", "mutual_ends"):
        out.append((name, (0, 1), 0, True, "all"))
        out.append((name, (0, 1), 1, False, "all"))
    for name in sorted(PROGRAMS):
        for prio in _prios(name):
            out.append((name, prio, 2, True, "conflict"))
            out.append((name, prio, 0, False, "conflict"))
    return out


# (program, prio, stride over first points, stride over second points)
def _doubles(tier):
    if tier == "quick":
        return [("tree_load2", (0, 1), 7, 5), ("tree_deferred2", (0, 1), 9, 7),
                ("mutual_deferred_ends", (1, 0), 11, 9), ("tree_load_vs_dump", (0, 1), 9, 7)]
    return [("tree_load2", (0, 1), 1, 1), ("tree_deferred2", (0, 1), 1, 1),
            ("tree_load_vs_dump", (0, 1), 1, 1), ("tree_load_vs_dump", (1, 0), 1, 1),
            ("chain_opt_vs_model", (0, 1), 1, 1), ("chain_opt_vs_model", (1, 0), 1, 1),
            ("mutual_deferred_ends", (0, 1), 1, 2)]


def _selfcheck(ctx):
    case = mk_case("tree_load2", (0, 1), [])
    a = Profile(case, keep_log=True)
    b = Profile(case, keep_log=True)
    if a.log != b.log:
        raise env.HarnessError("two sequential scheduled runs of the same program produced different yield logs: "
                               "the scheduler is not deterministic here")
    if a.total < 500 or not a.conflict_first:
        raise env.HarnessError(f"only {a.total} yield points observed: tracing of the retort files does not work")
    if a.diffs:
        raise env.HarnessError("sequential (unpreempted) run differs from the reference")
    if hasattr(sys, "monitoring"):
        # both engines must see the same yield points (generator-expression frames excepted: settrace reports a
        # line event per resumption, sys.monitoring one per line change)
        logs = {}
        for eng in ("settrace", "monitoring"):
            rep = execute(mk_case("mutual_ends", (1, 0), []), record=True, engine=eng)
            logs[eng] = [(t, fn, ln) for t, fn, ln in rep.log if fn != "<genexpr>"]
        if logs["settrace"] != logs["monitoring"]:
            raise env.HarnessError("sys.settrace and sys.monitoring engines disagree on the yield points")


def _phase(ctx, name, t0=[None]):  # noqa: B006
    if os.environ.get("C12_TIMING"):
        import time  # noqa: PLC0415
        now = time.monotonic()
        if t0[0] is not None:
            print(f"[C12 timing] shard {ctx.shard}: {name} done after {now - t0[0]:.1f}s, "
                  f"{ctx.evaluations} evaluations", file=sys.stderr, flush=True)
        t0[0] = now


def explore(ctx: runner.Ctx):  # noqa: C901
    _phase(ctx, "start")
    _selfcheck(ctx)
    if os.environ.get("C12_ONLY", "") in ("", "cold"):
        # first use *in the process*: every schedule in a process that has never built a retort (see props/cold12.py):
        # scenarios (recipes whose results depend on the lazily initialised process-wide state) x thread orders x the
        # lines only a cold process executes; the argument is the per-shard budget of the sampled part
        from props.cold12 import explore_cold  # noqa: PLC0415
        explore_cold(ctx, ctx.budget(200, 16000))
        _phase(ctx, "cold")
    idx = 0
    only = os.environ.get("C12_ONLY", "")  # debugging aid: run one phase only (single | double | pct)
    for name, prio, debug, strict, mode in (_sweeps(ctx.tier) if only in ("", "single") else []):
        base = mk_case(name, prio, [], debug, strict)
        prof = profile(base)
        points = range(prof.first_steps) if mode == "all" else prof.conflict_first
        for k in points:
            idx += 1
            if idx % ctx.nshards != ctx.shard:
                continue
            if ctx.out_of_time():
                return
            check_case(ctx, mk_case(name, prio, [k], debug, strict))
        if mode == "all":
            ctx.mark_exhaustive(f"all {prof.first_steps} single-preemption schedules of {name} prio={list(prio)} "
                                f"debug={debug} strict={strict} (first thread stopped at each of its yield points, "
                                f"the others run to completion, resume)")
        else:
            ctx.mark_exhaustive(f"all {len(prof.conflict_first)} single-preemption schedules at conflict lines of "
                                f"{name} prio={list(prio)} debug={debug} strict={strict}")

    _phase(ctx, "single-preemption sweeps")
    for name, prio, stride_i, stride_j in (_doubles(ctx.tier) if only in ("", "double") else []):
        base = mk_case(name, prio, [])
        prof = profile(base)
        firsts = prof.conflict_first[::stride_i]
        total = 0
        for i in firsts:
            idx += 1
            if idx % ctx.nshards != ctx.shard:
                continue
            if ctx.out_of_time():
                return
            case_i = mk_case(name, prio, [i])
            rep = execute(case_i, record=True)
            if rep.status != "ok":
                evaluate(ctx, case_i, rep)
                continue
            seconds = [g for g, (t, fn, _) in enumerate(rep.log) if g > i and t != prio[0] and fn in CONFLICT_FUNCS]
            for j in seconds[::stride_j]:
                if ctx.out_of_time():
                    return
                check_case(ctx, mk_case(name, prio, [i, j]))
                total += 1
        if stride_i == 1 and stride_j == 1:
            ctx.mark_exhaustive(f"all two-preemption schedules of {name} prio={list(prio)} with both preemption "
                                f"points on conflict lines ({len(firsts)} first points)")

    _phase(ctx, "two-preemption sweeps")
    if only in ("", "pct"):
        ctx.given(st_case(), lambda case: check_case(ctx, case), ctx.budget(1400, 80000))
    _phase(ctx, "PCT")


RULE = ("case = (program: model family + per-thread operations on ONE fresh retort, debug_trail, strict_coercion, "
        "schedule = thread priorities + global yield indices where the running thread is preempted). Schedules: all "
        "single preemptions (exhaustive), two preemptions on conflict lines, PCT-random with 1-4 change points. "
        "Non-trivial = at least one preemption really switched threads while the preempted thread was inside a "
        "creation request (_facade_provide on its stack), i.e. two first uses really interleave; "
        "distinct by (program, options, schedule).")


def _probe_main(raw: str) -> int:
    case = json.loads(raw)
    rep = execute(case, grace=3 * GRACE)
    print(json.dumps({"status": rep.status, "fallbacks": rep.fallbacks,
                      "blocked_at": [[i, w] for i, w in rep.blocked_at]}), flush=True)
    os._exit(0)


if __name__ == "__main__":
    if len(sys.argv) >= 3 and sys.argv[1] == "--probe":
        _probe_main(sys.argv[2])
    raise SystemExit(runner.main(
        PROP, explore=explore, check_case=check_case, strategy=st_case(), rule=RULE,
        assumptions=[
            "interleavings at Python statement granularity inside the retort files only (line events); GIL build; "
            "at most 3 threads; exhaustive only up to one preemption (two on conflict lines in the thorough tier)",
            "a thread that does not reach its next yield point within a grace period is treated as blocked and "
            "another thread is released (liveness fallback, counted); the wall clock never decides a verdict: a "
            "deadlock needs all unfinished threads blocked in the shard AND again in a fresh interpreter",
            "uniqueness of generated file names (ConcurrentCounter) is not observable through load/dump results and "
            "is not asserted",
        ],
    ))
