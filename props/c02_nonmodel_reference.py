"""C02 -- non-model loaders and dumpers implement exactly the documented per-type rules.

Reference model: vkit.refload.ref_load (three-valued, written from docs/loading-and-dumping/specific-types-behavior.rst)
and vkit.tspec.ref_dump.  Generated: non-model type specs (depth <= 3) x data soup / near-valid mutations x strict x
debug.  Oracle: accept(v) -> adaptix returns w, canon-equal to v (exact types and container classes); reject -> adaptix
raises (the *class* of the exception is C04's subject: only the LoadError family counts as a rejection here; anything
else is left to C04 and counted); unspec -> counted.  Dump: equal to ref_dump including the container class; plus an
exhaustive small sub-check of the union dumper's nearest-ancestor (MRO) rule.
"""
from __future__ import annotations

import dataclasses
import itertools
import typing

from vkit import env, runner
from vkit.errors import describe, exc_site, valid_load_error

env.import_adaptix()

from hypothesis import strategies as st  # noqa: E402

from adaptix import DebugTrail, ProviderNotFoundError, Retort, dumper  # noqa: E402
from vkit import codec, refload, soup, tspec  # noqa: E402

PROP = "C02"
DEBUG = [DebugTrail.DISABLE, DebugTrail.FIRST, DebugTrail.ALL]
GEN = tspec.TypeGen(max_depth=3, models=False, dumpable_unions=False, disjoint_unions=False)
GEN_NEAR = tspec.TypeGen(max_depth=3, models=False)
GEN_FLAT = tspec.TypeGen(max_depth=1, models=False, dumpable_unions=False, disjoint_unions=False)


@st.composite
def st_case(draw):
    what = draw(st.sampled_from(["load", "load", "load", "dump"]))
    if what == "dump":
        t = draw(GEN_NEAR.strategy())
        return {"what": "dump", "t": t, "v": draw(tspec.st_value(t)), "strict": True, "debug": draw(st.integers(0, 2))}
    src = draw(st.sampled_from(["near", "near", "near", "soup", "flat_soup"]))
    if src == "near":
        t = draw(GEN_NEAR.strategy())
        datum, ops = draw(soup.st_near_valid(t, max_mut=2))
    elif src == "soup":
        t = draw(GEN.strategy())
        datum, ops = draw(soup.st_soup()), ["soup"]
    else:
        t = draw(GEN_FLAT.strategy())
        datum, ops = draw(soup.st_soup(3)), ["soup"]
    return {"what": "load", "t": t, "datum": datum, "ops": ops, "strict": draw(st.booleans()),
            "debug": draw(st.integers(0, 2))}


def _has_unordered_input(v):
    if isinstance(v, list):
        return any(_has_unordered_input(x) for x in v)
    if isinstance(v, dict):
        if v.get("$") in ("set", "fset") and len(v["v"]) >= 2:
            return True
        return any(_has_unordered_input(x) for x in v.values())
    return False


def _unord(c):
    """Order-insensitive image of a tspec.canon value."""
    if isinstance(c, tuple):
        kids = sorted((_unord(x) for x in c[1:]), key=repr) if c and isinstance(c[0], str) else \
            sorted((_unord(x) for x in c), key=repr)
        return (c[0], *kids) if c and isinstance(c[0], str) else tuple(kids)
    return c


def leaf_tag_at_fault(t):
    return tspec.strip(t)[0]


def check_case(ctx: runner.Ctx, case):
    if case.get("what") == "mro":
        return check_mro_case(ctx, case)
    if case.get("what") == "iodump":
        return check_io_case(ctx, case)
    if case.get("what") == "subdump":
        return check_subdump_case(ctx, case)
    if case.get("all_modes", True) and not ctx.replaying:
        # generation dominates the cost: evaluate the generated (type, datum) under every mode combination
        for strict in ((True, False) if case["what"] == "load" else (True,)):
            for dbg in (0, 1, 2):
                check_one(ctx, {**case, "strict": strict, "debug": dbg, "all_modes": False})
        return None
    return check_one(ctx, case)


def check_one(ctx: runner.Ctx, case):  # noqa: C901, PLR0912
    t = case["t"]
    hint, e = tspec.build_type(t)
    retort = Retort(strict_coercion=case["strict"], debug_trail=DEBUG[case["debug"]])
    head = f"type={tspec.text(t)} strict={case['strict']} debug={case['debug']}"
    if case["what"] == "dump":
        x = codec.build(case["v"], e)
        ctx.case([case], tspec.depth(t) >= 2,
                 sample={"what": "dump", "type": tspec.text(t), "value": case["v"], "debug": case["debug"]},
                 labels=["what:dump", f"top:{t[0]}", f"depth:{tspec.depth(t)}"])
        try:
            d = retort.dump(x, hint)
        except Exception as ex:  # noqa: BLE001
            ctx.violation("dump_failed", (type(ex).__name__, exc_site(ex)), case, f"{head} value={x!r}: {describe(ex)}")
            return
        exp = tspec.ref_dump(t, codec.build(case["v"], e), e)
        if not tspec.dumped_eq(t, d, exp, e):
            ctx.violation("dump_form", (_diff_tag(t, d, exp, e),), case, f"{head} value={x!r}: dumped {d!r}, documented form {exp!r}")
        return
    try:
        ld = retort.get_loader(hint)
    except ProviderNotFoundError:
        ctx.count("not_creatable")
        return
    verdict = refload.ref_load(t, codec.build(case["datum"], e), case["strict"], e)
    datum = codec.build(case["datum"], e)
    kind = verdict[0]
    src = "soup" if case["ops"] == ["soup"] else f"near{len(case['ops'])}"
    nontrivial = kind != "unspec" and (src != "soup" or tspec.depth(t) >= 2) and (src != "near0" or tspec.depth(t) >= 2)
    ctx.case([case], nontrivial,
             sample={"what": "load", "type": tspec.text(t), "datum": case["datum"], "strict": case["strict"],
                     "debug": case["debug"], "reference": kind},
             labels=["what:load", f"ref:{kind}", f"src:{src}", f"strict:{case['strict']}", f"top:{tspec.strip(t)[0]}",
                     f"ref:{kind}:top:{tspec.strip(t)[0]}"])
    if kind == "unspec":
        return
    try:
        got = ld(datum)
    except RecursionError:
        ctx.count("recursion_error_skipped")
        return
    except BaseException as ex:  # noqa: BLE001
        if not valid_load_error(ex):
            ctx.count("non_loaderror_left_to_C04")
            return
        if kind != "reject":
            ctx.violation("rejected_documented_input", (_blame(t, case["strict"]),), case,
                          f"{head} datum={datum!r}: documented result {verdict[1:] if kind == 'accept' else 'accept'}; "
                          f"adaptix raised {describe(ex)}")
        return
    if kind == "reject":
        ctx.violation("accepted_undocumented_input", (_blame(t, case["strict"]),), case,
                      f"{head} datum={datum!r}: the documented rule rejects it; adaptix returned {got!r}")
    elif not refload.matches(verdict, got):
        if _has_unordered_input(case["datum"]) and len(verdict) == 2 and _unord(tspec.canon(verdict[1])) == _unord(tspec.canon(got)):
            # a set fed into an ordered target: the element order is the iteration order of that set object, which
            # depends on addresses for identity-hashed members (Decimal('NaN')) and differs between two builds of the datum
            ctx.count("set_input_order_unspecified")
            return
        ctx.violation("loaded_value_differs", (_blame(t, case["strict"]),), case,
                      f"{head} datum={datum!r}: documented result {verdict[1]!r}; adaptix returned {got!r}")


def _blame(t, strict):
    tags = sorted({s[0] for s in tspec.walk(t)} - {"newtype", "annotated", "alias"})
    return ("strict" if strict else "lax") + ":" + "+".join(tags)[:80]


def _diff_tag(t, a, b, e):
    from props.c01_roundtrip import first_diff  # noqa: PLC0415
    return first_diff(t, a, b, e)


# ------------------------------------------------------------------------- union dumper: nearest ancestor in mro()
@dataclasses.dataclass
class A:
    a: int = 1


@dataclasses.dataclass
class B(A):
    b: int = 2


@dataclasses.dataclass
class C(A):
    c: int = 3


@dataclasses.dataclass
class D(B, C):
    d: int = 4


class IntSub(int):
    pass


MRO_CLASSES = {"A": A, "B": B, "C": C, "D": D, "int": int, "str": str, "bool": bool}
MRO_VALUES = {"A()": A, "B()": B, "C()": C, "D()": D, "True": lambda: True, "1": lambda: 1, "IntSub(5)": lambda: IntSub(5),
              "'s'": lambda: "s"}


def check_mro_case(ctx: runner.Ctx, case):
    cases = [MRO_CLASSES[n] for n in case["cases"]]
    hint = typing.Union[tuple(cases)]  # type: ignore[valid-type]
    marks = [dumper(cls, (lambda name: lambda obj: f"dumped-as-{name}")(n)) for n, cls in MRO_CLASSES.items()
             if n in case["cases"]]
    retort = Retort(recipe=marks, debug_trail=DEBUG[case["debug"]])
    value = MRO_VALUES[case["value"]]()
    expected = None
    for klass in type(value).__mro__:
        if klass in cases:
            expected = [n for n in case["cases"] if MRO_CLASSES[n] is klass][0]
            break
    ctx.case(["mro", case], True, sample={"what": "union_dump_mro", **case, "expected_case": expected},
             labels=["what:mro", "mro:" + ("listed" if type(value) in cases else "ancestor" if expected else "unlisted")])
    try:
        got = retort.dump(value, hint)
    except Exception as ex:  # noqa: BLE001
        if expected is not None:
            ctx.violation("union_dump_failed", ("mro", type(ex).__name__), case,
                          f"Union{case['cases']} value={case['value']}: expected the dumper of {expected}; {describe(ex)}")
        else:
            ctx.count("mro_unlisted_class_raises")
        return
    if expected is None:
        ctx.count("unspecified_unlisted_class_dumped")
    elif got != f"dumped-as-{expected}":
        ctx.violation("union_dump_wrong_case", ("mro", case["value"]), case,
                      f"Union{case['cases']} value={case['value']}: expected dumper of {expected}, got {got!r}")


def mro_cases():
    names = list(MRO_CLASSES)
    for r in (2, 3):
        for combo in itertools.permutations(names, r):
            for v in MRO_VALUES:
                for dbg in (0, 2):
                    yield {"what": "mro", "cases": list(combo), "value": v, "debug": dbg}


_E_SPEC = {"name": "E0", "base": "Enum", "members": [["A", "x"], ["B", 1], ["C", 0], ["D", 21]]}
_IE_SPEC = {"name": "E1", "base": "IntEnum", "members": [["A", 1], ["B", 10]]}


def _em(spec, n):
    return {"$": "enum", "c": spec["name"], "n": n, "spec": spec}


LITERAL_TABLE = [
    [0], [1], [True], [False], [0, 1], [True, False], [0, True], [False, 1], [0, False], [1, True], [0, 1, False, True],
    [True, 0, "a"], [False, 1, 2], [1, 2, 3, 4, 5], [True, 0, 2, 3, 4], [False, 1, "a", "b", "c"], [0, 1, False, True, "x"],
    ["1", 1], ["a", None], [None, 0], [2, "2"],
    [_em(_E_SPEC, "A")], [_em(_E_SPEC, "B"), 2], [_em(_E_SPEC, "A"), True], [_em(_E_SPEC, "D"), 1], [_em(_E_SPEC, "D"), 0, "z"],
    [_em(_E_SPEC, "A"), _em(_E_SPEC, "D"), False, 2, 3, 4], [_em(_IE_SPEC, "B"), 0], [_em(_IE_SPEC, "B"), True, "q"],
    [{"$": "bytes", "h": "6162"}], [{"$": "bytes", "h": "6162"}, 0], [{"$": "bytes", "h": ""}, True, 2],
    [{"$": "bytes", "h": "00"}, _em(_E_SPEC, "A"), 1], [{"$": "bytes", "h": "00"}, 1, 2, 3, 4, False],
    [{"$": "bytes", "h": "00"}, _em(_IE_SPEC, "B"), 2], [_em(_IE_SPEC, "A"), _em(_E_SPEC, "B"), "x"],
]
LITERAL_DATA = [0, 1, 2, True, False, None, 1.0, 0.0, "1", "0", "a", "x", "", "YWI=", "AA==", 21, 10, "21", "True",
                {"$": "bytes", "h": "6162"}, {"$": "bytearray", "h": "00"}, {"$": "dec", "s": "1"}, {"$": "strsub", "s": "a"},
                [1], {"$": "t", "v": [0]}]


def literal_table_cases():
    """Every Literal of a fixed list (bool/int look-alikes, enum and bytes members, more than four members) x every
    datum of a fixed probe list; check_case evaluates each under the six mode combinations."""
    for vals in LITERAL_TABLE:
        for wrap in ("plain", "optional", "list"):
            t = ["literal", vals]
            for d in LITERAL_DATA:
                if wrap == "plain":
                    yield {"what": "load", "t": t, "datum": d, "ops": ["table"], "strict": True, "debug": 0}
                elif wrap == "optional":
                    yield {"what": "load", "t": ["optional", t, "optional"], "datum": d, "ops": ["table"], "strict": True,
                           "debug": 0}
                else:
                    yield {"what": "load", "t": ["list", t, "typing"], "datum": [d, d], "ops": ["table"], "strict": True,
                           "debug": 0}


# ------------------------------------------------------------------------------------ a datetime in a slot declared date
SUBDUMP_SHAPES = ["bare", "optional", "list", "dict_value", "tuple", "union_date_int", "union_int_date_str"]


def subdump_cases():
    """``datetime`` is a subclass of ``date``: a datetime object is a legitimate value of a slot declared ``date``.  Its outer form is
    the one of the DECLARED type (the date's isoformat string, the only thing the date loader takes back), chosen by the
    declaration and not by the runtime class -- also through the nearest-ancestor fallback of a union dumper."""
    for shape in SUBDUMP_SHAPES:
        for dbg in (0, 1, 2):
            for strict in (True, False):
                for tz in (False, True):
                    yield {"what": "subdump", "shape": shape, "debug": dbg, "strict": strict, "tz": tz}


def check_subdump_case(ctx, case):
    import datetime as dt  # noqa: PLC0415
    import typing as tp  # noqa: PLC0415
    v = dt.datetime(2024, 2, 29, 13, 37, 5, 250000, tzinfo=dt.timezone.utc if case["tz"] else None)
    exp = "2024-02-29"
    shape = case["shape"]
    hint, obj, want = {
        "bare": (dt.date, v, exp), "optional": (tp.Optional[dt.date], v, exp), "list": (tp.List[dt.date], [v, dt.date(2024, 3, 1)], [exp, "2024-03-01"]),
        "dict_value": (tp.Dict[str, dt.date], {"k": v}, {"k": exp}), "tuple": (tp.Tuple[int, dt.date], (1, v), (1, exp)),
        "union_date_int": (tp.Union[dt.date, int], v, exp), "union_int_date_str": (tp.Union[int, dt.date, str], v, exp),
    }[shape]
    retort = Retort(strict_coercion=case["strict"], debug_trail=DEBUG[case["debug"]])
    ctx.case(["subdump", case], True, sample={"what": "datetime_in_date_slot", **case}, labels=["what:subdump", f"shape:{shape}"])
    try:
        got = retort.dump(obj, hint)
    except Exception as ex:  # noqa: BLE001
        ctx.violation("subclass_value_dump_failed", (shape, type(ex).__name__), case, f"dump({obj!r}, {hint}) raised {describe(ex)}")
        return
    norm = list(got) if isinstance(got, tuple) and isinstance(want, (list, tuple)) else got
    if norm != (list(want) if isinstance(want, tuple) else want):
        ctx.violation("declared_date_dumped_by_runtime_class", (shape,), case,
                      f"dump({obj!r}, {hint}) = {got!r}; the slot is declared date, whose outer form is the date's isoformat string "
                      f"{want!r} (what the date loader accepts)")
        return
    try:
        back = retort.load(got if not isinstance(got, tuple) else list(got), hint)
    except Exception as ex:  # noqa: BLE001
        ctx.violation("declared_date_dump_not_loadable", (shape,), case, f"load({got!r}, {hint}) raised {describe(ex)}")
        return
    del back


# ------------------------------------------------------------------------------------ IO[bytes]: any binary stream
# docs: IO[bytes] is "represented as base64 encoded string"; the hint admits every binary stream, not only BytesIO
IO_STREAMS = ["bytesio", "bytesio_mid", "buffered_reader", "buffered_random", "raw_nonseekable", "tempfile"]


def _make_stream(kind, content: bytes):
    import io  # noqa: PLC0415
    import tempfile  # noqa: PLC0415
    if kind == "bytesio":
        return io.BytesIO(content)
    if kind == "bytesio_mid":
        b = io.BytesIO(content)
        b.seek(len(content) // 2)
        return b
    if kind == "buffered_reader":
        return io.BufferedReader(io.BytesIO(content))
    if kind == "buffered_random":
        return io.BufferedRandom(io.BytesIO(content))
    if kind == "raw_nonseekable":
        class _Raw(io.RawIOBase):
            def __init__(self, data):
                self._d = io.BytesIO(data)

            def readable(self):
                return True

            def seekable(self):
                return False

            def readinto(self, b):
                return self._d.readinto(b)
        return io.BufferedReader(_Raw(content))
    f = tempfile.TemporaryFile()  # noqa: SIM115
    f.write(content)
    f.seek(0)
    return f


def io_cases():
    for kind in IO_STREAMS:
        for hexed in ("", "00ff61", "61626364" * 5):
            for wrap in ("bare", "list", "optional", "dict"):
                for dbg in (0, 1, 2):
                    yield {"what": "iodump", "stream": kind, "h": hexed, "wrap": wrap, "debug": dbg}


def check_io_case(ctx: runner.Ctx, case):
    import base64  # noqa: PLC0415
    import typing  # noqa: PLC0415
    content = bytes.fromhex(case["h"])
    exp = base64.b64encode(content).decode("ascii")
    stream = _make_stream(case["stream"], content)
    hint, value, expected = {
        "bare": (typing.IO[bytes], stream, exp), "list": (typing.List[typing.IO[bytes]], [stream], [exp]),
        "optional": (typing.Optional[typing.IO[bytes]], stream, exp), "dict": (typing.Dict[str, typing.IO[bytes]], {"k": stream}, {"k": exp}),
    }[case["wrap"]]
    ctx.case([case], case["stream"] not in ("bytesio",), sample=case, labels=["what:iodump", f"stream:{case['stream']}"])
    try:
        got = Retort(debug_trail=DEBUG[case["debug"]]).dump(value, hint)
    except Exception as ex:  # noqa: BLE001
        got = describe(ex)
    finally_close = getattr(stream, "close", None)
    if got != expected:
        ctx.violation("dump_form", ("iobytes", case["stream"]), case,
                      f"dump of a {case['stream']} holding {content!r} as {hint}: documented form {expected!r}, got {got!r}")
    if finally_close:
        finally_close()


def explore(ctx: runner.Ctx):
    for i, c in enumerate(io_cases()):
        if i % ctx.nshards == ctx.shard:
            runner.guarded(ctx, lambda k: check_case(ctx, k), c)
    for i, c in enumerate(subdump_cases()):
        if i % ctx.nshards == ctx.shard:
            runner.guarded(ctx, lambda k: check_case(ctx, k), c)
    for i, c in enumerate(mro_cases()):
        if i % ctx.nshards == ctx.shard and (ctx.tier == "thorough" or i % 7 == ctx.base_seed % 7):
            check_case(ctx, c)
    n_lit = 0
    for i, c in enumerate(literal_table_cases()):
        n_lit += 1
        if i % ctx.nshards == ctx.shard:
            runner.guarded(ctx, lambda k: check_case(ctx, k), c)
    ctx.mark_exhaustive(f"Literal table: {len(LITERAL_TABLE)} Literals x {len(LITERAL_DATA)} probe data x (plain, Optional, "
                        f"List) = {n_lit} cases x 6 mode combinations, each compared with the reference")
    # the hostile table of C04 (every type-aimed hostile string / number against the scalar it aims at, bare and inside
    # containers) through the reference: what must be REJECTED is rejected ("YWJj\n" is not base64 ...)
    from props.c04_only_loaderror import hostile_table_cases  # noqa: PLC0415
    n_host = 0
    for c in hostile_table_cases():
        if c["provs"] or c["strict"] or c["debug"]:   # the table repeats each pair per mode; check_case runs all six anyway
            continue
        n_host += 1
        if n_host % ctx.nshards == ctx.shard:
            runner.guarded(ctx, lambda k: check_case(ctx, k),
                           {"what": "load", "t": c["t"], "datum": c["datum"], "ops": ["table"], "strict": True, "debug": 0})
    ctx.mark_exhaustive(f"hostile table: {n_host} (scalar type in 4 positions, hostile datum) pairs x 6 mode combinations")
    if ctx.tier == "thorough":
        ctx.mark_exhaustive("union dumper MRO sub-check: all ordered 2- and 3-subsets of 8 classes x 9 values x 2 modes")
    ctx.given(st_case(), lambda c: check_case(ctx, c), ctx.budget(6000, 200000))


RULE = ("cases = (non-model type spec, datum | canonical value, strict, debug); datum = near-valid mutation of the reference "
        "dump (60%) or soup. Non-trivial = the reference answer is accept or reject (not unspecified) and the case is not a "
        "flat type on pure soup / an unmutated flat value. Distinct by the whole case.")

if __name__ == "__main__":
    raise SystemExit(runner.main(
        PROP, explore=explore, check_case=check_case, strategy=st_case(), rule=RULE,
        assumptions=["the reference interpreter encodes docs/loading-and-dumping/specific-types-behavior.rst; zones it "
                     "leaves open (subclasses of str/int, non-str data for constructor-delegating types, non-canonical "
                     "base64, equal-but-differently-typed Literal/enum data, overlapping union cases) are unspecified",
                     "a non-LoadError escaping on rejected data is counted and left to C04"],
    ))
