#!/venv/bin/python
"""Coverage-guided stage of C04 (Atheris / libFuzzer).

bytes -> FuzzedDataProvider -> (index into a table of pre-generated (type spec, mode) loaders, recursively decoded
datum *value spec*) -> codec.build -> loader(datum); the C04 oracle (every node of an escaping exception tree is a
LoadError) runs inside the target.  A violating input is NOT raised (libFuzzer would stop at the first one): the decoded
case is written as JSON to --out, one file per bucket (foreign exception class + innermost adaptix frame), smallest case
kept.  The caller (props/c04_only_loaderror.py, thorough tier) re-runs every such case through the ordinary oracle, so a
reported violation never depends on this process.

usage: c04_atheris.py --out DIR --runs N --seed K [--table-seed S] [--max-len L]
"""
import argparse
import hashlib
import json
import os
import sys

HERE = os.path.dirname(os.path.dirname(os.path.abspath(__file__)))
sys.path.insert(0, os.path.join(os.environ.get("VERIF_REPO", "/repo"), "src"))
sys.path.append(HERE)
sys.path.append(os.path.join(HERE, ".deps"))
sys.dont_write_bytecode = True

import atheris  # noqa: E402

with atheris.instrument_imports(include=["adaptix"]):
    import adaptix  # noqa: F401

from hypothesis import HealthCheck, Phase, given, seed, settings  # noqa: E402

from adaptix import DebugTrail, ProviderNotFoundError, Retort  # noqa: E402
from vkit import codec, soup, tspec  # noqa: E402
from vkit.errors import all_nodes, exc_site, first_foreign, valid_load_error  # noqa: E402

DEBUG = [DebugTrail.DISABLE, DebugTrail.FIRST, DebugTrail.ALL]
STRINGS = [x for x in soup._LEAVES if isinstance(x, str)] + soup.HOSTILE_STRINGS  # noqa: SLF001
NUMBERS = soup.HOSTILE_NUMBERS
KEYS = soup._KEYS  # noqa: SLF001
OTHER_LEAVES = [x for x in soup._LEAVES if isinstance(x, dict)]  # noqa: SLF001


def build_table(table_seed: int, size: int):
    gen = tspec.TypeGen(max_depth=3, dumpable_unions=False, disjoint_unions=False, unhashable_set_elems=True)
    specs, seen = [], set()

    @seed(table_seed)
    @settings(max_examples=size * 3, database=None, deadline=None, phases=[Phase.generate],
              suppress_health_check=list(HealthCheck))
    @given(gen.strategy())
    def collect(t):
        k = tspec.key_of(t)
        if k not in seen and len(specs) < size:
            seen.add(k)
            specs.append(t)

    collect()
    return specs


def decode(fdp, depth):  # noqa: C901, PLR0911, PLR0912
    """bytes -> value spec (see vkit.codec)."""
    k = fdp.ConsumeIntInRange(0, 27 if depth > 0 else 15)
    if k == 0:
        return None
    if k == 1:
        return fdp.ConsumeBool()
    if k == 2:
        return fdp.ConsumeIntInRange(-3, 300)
    if k == 3:
        return fdp.ConsumeInt(9)
    if k == 4:
        v = fdp.ConsumeFloat()
        return tspec._fl(v)  # noqa: SLF001
    if k in (5, 6):
        return fdp.PickValueInList(STRINGS)
    if k == 7:
        return fdp.ConsumeUnicodeNoSurrogates(fdp.ConsumeIntInRange(0, 12))
    if k == 8:
        return fdp.PickValueInList(NUMBERS)
    if k == 9:
        return {"$": "bytes", "h": fdp.ConsumeBytes(fdp.ConsumeIntInRange(0, 6)).hex()}
    if k == 10:
        return fdp.PickValueInList(OTHER_LEAVES)
    if k == 11:
        return {"$": "strsub", "s": fdp.PickValueInList(STRINGS)}
    if k == 12:
        return {"$": "dec", "s": fdp.PickValueInList(["0", "1.5", "NaN", "sNaN", "Infinity", "-0", "1E+400", "1E-400"])}
    if k == 13:
        return fdp.ConsumeUnicode(fdp.ConsumeIntInRange(0, 6))
    if k == 14:
        return 10 ** fdp.ConsumeIntInRange(0, 400) * (1 if fdp.ConsumeBool() else -1)
    if k == 15:
        return {"$": "opaque"}
    n = fdp.ConsumeIntInRange(0, 4)
    if k in (16, 17, 18):
        items = [decode(fdp, depth - 1) for _ in range(n)]
        return items if k == 16 else {"$": "t" if k == 17 else "listsub", "v": items}
    if k in (19, 20, 21, 22):
        pairs = []
        for _ in range(n):
            key = fdp.PickValueInList(KEYS) if fdp.ConsumeBool() else fdp.PickValueInList(STRINGS)
            pairs.append([key, decode(fdp, depth - 1)])
        seen, out = set(), []
        for kk, vv in pairs:
            r = repr(kk)
            if r not in seen:
                seen.add(r)
                out.append([kk, vv])
        return {"$": ["d", "d", "custmap", "itemsonly"][k - 19], "v": out}
    items = [decode(fdp, depth - 1) for _ in range(n)]
    tag = {23: "gen", 24: "nolen", 25: "deque", 26: "set", 27: "fset"}[k]
    return {"$": tag, "v": items}


def main():
    ap = argparse.ArgumentParser()
    ap.add_argument("--out", required=True)
    ap.add_argument("--runs", type=int, default=100000)
    ap.add_argument("--seed", type=int, default=1)
    ap.add_argument("--table-seed", type=int, default=1)
    ap.add_argument("--table-size", type=int, default=150)
    ap.add_argument("--max-len", type=int, default=400)
    args = ap.parse_args()
    os.makedirs(args.out, exist_ok=True)
    corpus = os.path.join(args.out, "corpus")
    os.makedirs(corpus, exist_ok=True)
    specs = build_table(args.table_seed, args.table_size)
    built = {}
    loaders = {}
    best = {}
    stats = {"execs": 0, "raised_loaderror": 0, "returned": 0, "violations": 0}

    def loader_for(i, mode):
        key = (i, mode)
        if key in loaders:
            return loaders[key]
        if i not in built:
            built[i] = tspec.build_type(specs[i])
        hint, e = built[i]
        retort = Retort(strict_coercion=bool(mode % 2), debug_trail=DEBUG[mode // 2])
        try:
            ld = retort.get_loader(hint)
        except ProviderNotFoundError:
            ld = None
        loaders[key] = ld
        return ld

    def one_input(data):
        fdp = atheris.FuzzedDataProvider(data)
        i = fdp.ConsumeIntInRange(0, len(specs) - 1)
        mode = fdp.ConsumeIntInRange(0, 5)
        ld = loader_for(i, mode)
        if ld is None:
            return
        vspec = decode(fdp, 5)
        try:
            datum = codec.build(vspec, built[i][1])
        except RecursionError:
            return
        stats["execs"] += 1
        try:
            ld(datum)
            stats["returned"] += 1
        except RecursionError:
            return
        except BaseException as ex:  # noqa: BLE001
            if valid_load_error(ex):
                stats["raised_loaderror"] += 1
                return
            if any(isinstance(n, RecursionError) for n in all_nodes(ex)):
                return
            stats["violations"] += 1
            foreign = first_foreign(ex)
            sig = f"{type(foreign).__name__}|{exc_site(foreign)}"
            case = {"t": specs[i], "datum": vspec, "ops": ["atheris"], "strict": bool(mode % 2), "debug": mode // 2,
                    "provs": [], "layouts": {}}
            size = len(json.dumps(case, default=repr))
            if sig not in best or size < best[sig]:
                best[sig] = size
                name = hashlib.blake2b(sig.encode(), digest_size=8).hexdigest()
                with open(os.path.join(args.out, f"case_{name}.json"), "w") as f:
                    json.dump({"signature": sig, "case": case}, f)
        if stats["execs"] % 250 == 0:
            with open(os.path.join(args.out, "stats.json"), "w") as f:
                json.dump(stats, f)

    argv = [sys.argv[0], f"-runs={args.runs}", f"-seed={args.seed}", f"-max_len={args.max_len}", "-print_final_stats=0",
            "-verbosity=0", corpus]
    # a few seed inputs so that the first bytes (table index, mode) vary from the start
    for j in range(16):
        with open(os.path.join(corpus, f"seed{j}"), "wb") as f:
            f.write(bytes([(j * 37 + args.seed) % 256, j % 6]) + bytes(range(j, j + 24)))
    atheris.Setup(argv, one_input)
    try:
        atheris.Fuzz()
    finally:
        with open(os.path.join(args.out, "stats.json"), "w") as f:
            json.dump(stats, f)


if __name__ == "__main__":
    main()
